//! The 31 byte-level decoding entry points of coset ("endpoints" of the simulated wire) and the
//! uniform operations the engines perform on whatever they accept.

use coset::cbor::value::Value;
use coset::{iana, AsCborValue, CborSerializable, CoseError, TaggedCborSerializable};

pub type CritLabel = coset::RegisteredLabel<iana::HeaderParameter>;

#[derive(Clone, Debug, PartialEq)]
pub enum Decoded {
    Header(coset::Header),
    Protected(coset::ProtectedHeader),
    Signature(coset::CoseSignature),
    Sign(coset::CoseSign),
    Sign1(coset::CoseSign1),
    Mac(coset::CoseMac),
    Mac0(coset::CoseMac0),
    Encrypt(coset::CoseEncrypt),
    Encrypt0(coset::CoseEncrypt0),
    Recipient(coset::CoseRecipient),
    Key(coset::CoseKey),
    KeySet(coset::CoseKeySet),
    Claims(coset::cwt::ClaimsSet),
    Party(coset::PartyInfo),
    SuppPub(coset::SuppPubInfo),
    Kdf(coset::CoseKdfContext),
    Label(coset::Label),
    KeyType(coset::KeyType),
    KeyOp(coset::KeyOperation),
    Crit(CritLabel),
    ContentType(coset::ContentType),
    Algorithm(coset::Algorithm),
    ClaimName(coset::cwt::ClaimName),
    Value(Value),
}

macro_rules! each {
    ($self:expr, $v:ident => $body:expr) => {
        match $self {
            Decoded::Header($v) => $body,
            Decoded::Protected($v) => $body,
            Decoded::Signature($v) => $body,
            Decoded::Sign($v) => $body,
            Decoded::Sign1($v) => $body,
            Decoded::Mac($v) => $body,
            Decoded::Mac0($v) => $body,
            Decoded::Encrypt($v) => $body,
            Decoded::Encrypt0($v) => $body,
            Decoded::Recipient($v) => $body,
            Decoded::Key($v) => $body,
            Decoded::KeySet($v) => $body,
            Decoded::Claims($v) => $body,
            Decoded::Party($v) => $body,
            Decoded::SuppPub($v) => $body,
            Decoded::Kdf($v) => $body,
            Decoded::Label($v) => $body,
            Decoded::KeyType($v) => $body,
            Decoded::KeyOp($v) => $body,
            Decoded::Crit($v) => $body,
            Decoded::ContentType($v) => $body,
            Decoded::Algorithm($v) => $body,
            Decoded::ClaimName($v) => $body,
            Decoded::Value($v) => $body,
        }
    };
}

impl Decoded {
    /// Equality up to NaN: derived `==` is false for any value holding a NaN float (NaN != NaN),
    /// so fall back to comparing the derived Debug renderings, which cover every field and print
    /// every NaN alike.
    pub fn same(&self, other: &Decoded) -> bool {
        self == other || format!("{:?}", self) == format!("{:?}", other)
    }
    /// Hand-modified copies of a decoded value, in states that decoding itself never produces but
    /// that the public fields allow (the crate documentation itself shows
    /// `protected.original_data = None` followed by an edit of the parsed header): retained wire
    /// bytes dropped, retained wire bytes replaced by hand, payload / ciphertext removed.
    pub fn variants(&self) -> Vec<(&'static str, Decoded)> {
        let mut out = Vec::new();
        // duplicate map keys in places the per-structure code does or does not police: a repeated
        // extra label, an extra label equal to a populated typed field, a repeated key inside a
        // map-valued parameter
        macro_rules! dups {
            ($m:expr, $variant:ident) => {{
                let mut a = $m.clone();
                a.unprotected
                    .rest
                    .push((coset::Label::Int(1000), Value::Null));
                a.unprotected
                    .rest
                    .push((coset::Label::Int(1000), Value::Bool(true)));
                out.push(("duplicate-extra-label", Decoded::$variant(a)));
                let mut b = $m.clone();
                b.unprotected.alg = Some(coset::Algorithm::Assigned(iana::Algorithm::ES256));
                b.unprotected
                    .rest
                    .push((coset::Label::Int(1), Value::from(-8)));
                out.push(("extra-label-equals-typed-field", Decoded::$variant(b)));
                let mut c = $m.clone();
                c.unprotected.rest.push((
                    coset::Label::Int(-1),
                    Value::Map(vec![
                        (Value::from(1), Value::from(2)),
                        (Value::from(-1), Value::from(1)),
                        (Value::from(1), Value::from(3)),
                    ]),
                ));
                out.push(("duplicate-key-inside-parameter-value", Decoded::$variant(c)));
            }};
        }
        macro_rules! prot {
            ($m:expr, $variant:ident) => {{
                dups!($m, $variant);
                let mut a = $m.clone();
                a.protected.original_data = None;
                out.push(("wire-bytes-dropped", Decoded::$variant(a)));
                let mut b = $m.clone();
                b.protected.original_data = Some(vec![0xa1, 0x01, 0x26]);
                out.push(("wire-bytes-set-by-hand", Decoded::$variant(b)));
                let mut c = $m.clone();
                c.protected.original_data = None;
                c.protected.header.key_id = b"edited".to_vec();
                out.push(("header-edited", Decoded::$variant(c)));
            }};
        }
        match self {
            Decoded::Sign(m) => {
                prot!(m, Sign);
                let mut d = m.clone();
                d.payload = None;
                out.push(("payload-removed", Decoded::Sign(d)));
                let mut e = m.clone();
                e.signatures.clear();
                out.push(("signatures-removed", Decoded::Sign(e)));
            }
            Decoded::Sign1(m) => {
                prot!(m, Sign1);
                let mut d = m.clone();
                d.payload = None;
                out.push(("payload-removed", Decoded::Sign1(d)));
            }
            Decoded::Mac(m) => {
                prot!(m, Mac);
                let mut d = m.clone();
                d.payload = None;
                d.recipients.clear();
                out.push(("payload-and-recipients-removed", Decoded::Mac(d)));
            }
            Decoded::Mac0(m) => {
                prot!(m, Mac0);
                let mut d = m.clone();
                d.payload = None;
                out.push(("payload-removed", Decoded::Mac0(d)));
            }
            Decoded::Encrypt(m) => {
                prot!(m, Encrypt);
                let mut d = m.clone();
                d.ciphertext = None;
                d.recipients.clear();
                out.push(("ciphertext-and-recipients-removed", Decoded::Encrypt(d)));
            }
            Decoded::Encrypt0(m) => {
                prot!(m, Encrypt0);
                let mut d = m.clone();
                d.ciphertext = None;
                out.push(("ciphertext-removed", Decoded::Encrypt0(d)));
            }
            Decoded::Recipient(m) => prot!(m, Recipient),
            Decoded::Signature(m) => prot!(m, Signature),
            Decoded::SuppPub(m) => {
                let mut a = m.clone();
                a.protected.original_data = None;
                out.push(("wire-bytes-dropped", Decoded::SuppPub(a)));
                let mut b = m.clone();
                b.protected.original_data = Some(vec![0xa1, 0x01, 0x26]);
                out.push(("wire-bytes-set-by-hand", Decoded::SuppPub(b)));
            }
            Decoded::Protected(p) => {
                let mut a = p.clone();
                a.original_data = Some(vec![0xa1, 0x01, 0x26]);
                out.push(("wire-bytes-set-by-hand", Decoded::Protected(a)));
                let mut b = p.clone();
                b.original_data = None;
                b.header.key_id = b"edited".to_vec();
                out.push(("header-edited", Decoded::Protected(b)));
            }
            _ => {}
        }
        out
    }

    pub fn to_vec(&self) -> Result<Vec<u8>, CoseError> {
        each!(self, v => v.clone().to_vec())
    }
    /// `into_writer(to_cbor_value(v))`: the Value-level route to bytes.
    pub fn to_vec_via_value(&self) -> Result<Vec<u8>, CoseError> {
        let val = each!(self, v => v.clone().to_cbor_value())?;
        let mut data = Vec::new();
        coset::cbor::ser::into_writer(&val, &mut data).map_err(|_| CoseError::EncodeFailed)?;
        Ok(data)
    }
    pub fn to_tagged_vec(&self) -> Option<Result<Vec<u8>, CoseError>> {
        match self {
            Decoded::Sign(v) => Some(v.clone().to_tagged_vec()),
            Decoded::Sign1(v) => Some(v.clone().to_tagged_vec()),
            Decoded::Mac(v) => Some(v.clone().to_tagged_vec()),
            Decoded::Mac0(v) => Some(v.clone().to_tagged_vec()),
            Decoded::Encrypt(v) => Some(v.clone().to_tagged_vec()),
            Decoded::Encrypt0(v) => Some(v.clone().to_tagged_vec()),
            _ => None,
        }
    }
    pub fn tagged_via_value(&self, tag: u64) -> Result<Vec<u8>, CoseError> {
        let val = each!(self, v => v.clone().to_cbor_value())?;
        let mut data = Vec::new();
        coset::cbor::ser::into_writer(&Value::Tag(tag, Box::new(val)), &mut data)
            .map_err(|_| CoseError::EncodeFailed)?;
        Ok(data)
    }
}

#[derive(Clone, Copy, Debug, PartialEq, Eq)]
pub enum Form {
    Untagged,
    Tagged,
    /// `ProtectedHeader::from_cbor_bstr(Value::Bytes(wire))`
    Bstr,
}

#[derive(Clone, Copy)]
pub struct Endpoint {
    pub name: &'static str,
    /// type family, equal for the tagged and untagged decoder of one type
    pub ty: &'static str,
    pub form: Form,
    pub decode: fn(&[u8]) -> Result<Decoded, CoseError>,
    /// Value-level route: parse with ciborium, then convert
    pub decode_via_value: fn(&[u8]) -> Result<Decoded, CoseError>,
}

fn parse_value_strict(b: &[u8]) -> Result<Value, CoseError> {
    // the documented composition: CBOR-parse the bytes (exactly one item), then convert
    let mut slice = b;
    let v: Value = coset::cbor::de::from_reader(&mut slice).map_err(CoseError::from)?;
    if !slice.is_empty() {
        return Err(CoseError::ExtraneousData);
    }
    Ok(v)
}

macro_rules! ep {
    ($name:expr, $ty:expr, $t:ty, $variant:ident) => {
        Endpoint {
            name: $name,
            ty: $ty,
            form: Form::Untagged,
            decode: |b| <$t>::from_slice(b).map(Decoded::$variant),
            decode_via_value: |b| {
                <$t>::from_cbor_value(parse_value_strict(b)?).map(Decoded::$variant)
            },
        }
    };
}

macro_rules! ept {
    ($name:expr, $ty:expr, $t:ty, $variant:ident) => {
        Endpoint {
            name: $name,
            ty: $ty,
            form: Form::Tagged,
            decode: |b| <$t>::from_tagged_slice(b).map(Decoded::$variant),
            decode_via_value: |b| match parse_value_strict(b)? {
                Value::Tag(t, inner) if t == <$t>::TAG => {
                    <$t>::from_cbor_value(*inner).map(Decoded::$variant)
                }
                Value::Tag(_, _) => Err(CoseError::UnexpectedItem("tag", "other tag")),
                _ => Err(CoseError::UnexpectedItem("non-tag", "tag")),
            },
        }
    };
}

pub fn endpoints() -> &'static [Endpoint] {
    static E: std::sync::OnceLock<Vec<Endpoint>> = std::sync::OnceLock::new();
    E.get_or_init(|| {
        vec![
            ep!("Header::from_slice", "Header", coset::Header, Header),
            ep!(
                "ProtectedHeader::from_slice",
                "ProtectedHeader",
                coset::ProtectedHeader,
                Protected
            ),
            ep!(
                "CoseSignature::from_slice",
                "CoseSignature",
                coset::CoseSignature,
                Signature
            ),
            ep!("CoseSign::from_slice", "CoseSign", coset::CoseSign, Sign),
            ep!(
                "CoseSign1::from_slice",
                "CoseSign1",
                coset::CoseSign1,
                Sign1
            ),
            ep!("CoseMac::from_slice", "CoseMac", coset::CoseMac, Mac),
            ep!("CoseMac0::from_slice", "CoseMac0", coset::CoseMac0, Mac0),
            ep!(
                "CoseEncrypt::from_slice",
                "CoseEncrypt",
                coset::CoseEncrypt,
                Encrypt
            ),
            ep!(
                "CoseEncrypt0::from_slice",
                "CoseEncrypt0",
                coset::CoseEncrypt0,
                Encrypt0
            ),
            ep!(
                "CoseRecipient::from_slice",
                "CoseRecipient",
                coset::CoseRecipient,
                Recipient
            ),
            ep!("CoseKey::from_slice", "CoseKey", coset::CoseKey, Key),
            ep!(
                "CoseKeySet::from_slice",
                "CoseKeySet",
                coset::CoseKeySet,
                KeySet
            ),
            ep!(
                "ClaimsSet::from_slice",
                "ClaimsSet",
                coset::cwt::ClaimsSet,
                Claims
            ),
            ep!(
                "PartyInfo::from_slice",
                "PartyInfo",
                coset::PartyInfo,
                Party
            ),
            ep!(
                "SuppPubInfo::from_slice",
                "SuppPubInfo",
                coset::SuppPubInfo,
                SuppPub
            ),
            ep!(
                "CoseKdfContext::from_slice",
                "CoseKdfContext",
                coset::CoseKdfContext,
                Kdf
            ),
            ep!("Label::from_slice", "Label", coset::Label, Label),
            ep!("KeyType::from_slice", "KeyType", coset::KeyType, KeyType),
            ep!(
                "KeyOperation::from_slice",
                "KeyOperation",
                coset::KeyOperation,
                KeyOp
            ),
            ep!(
                "RegisteredLabel<HeaderParameter>::from_slice",
                "CritLabel",
                CritLabel,
                Crit
            ),
            ep!(
                "ContentType::from_slice",
                "ContentType",
                coset::ContentType,
                ContentType
            ),
            ep!(
                "Algorithm::from_slice",
                "Algorithm",
                coset::Algorithm,
                Algorithm
            ),
            ep!(
                "ClaimName::from_slice",
                "ClaimName",
                coset::cwt::ClaimName,
                ClaimName
            ),
            ep!("Value::from_slice", "Value", Value, Value),
            ept!(
                "CoseSign::from_tagged_slice",
                "CoseSign",
                coset::CoseSign,
                Sign
            ),
            ept!(
                "CoseSign1::from_tagged_slice",
                "CoseSign1",
                coset::CoseSign1,
                Sign1
            ),
            ept!("CoseMac::from_tagged_slice", "CoseMac", coset::CoseMac, Mac),
            ept!(
                "CoseMac0::from_tagged_slice",
                "CoseMac0",
                coset::CoseMac0,
                Mac0
            ),
            ept!(
                "CoseEncrypt::from_tagged_slice",
                "CoseEncrypt",
                coset::CoseEncrypt,
                Encrypt
            ),
            ept!(
                "CoseEncrypt0::from_tagged_slice",
                "CoseEncrypt0",
                coset::CoseEncrypt0,
                Encrypt0
            ),
            Endpoint {
                name: "ProtectedHeader::from_cbor_bstr",
                ty: "ProtectedHeader",
                form: Form::Bstr,
                decode: |b| {
                    coset::ProtectedHeader::from_cbor_bstr(Value::Bytes(b.to_vec()))
                        .map(Decoded::Protected)
                },
                decode_via_value: |b| {
                    coset::ProtectedHeader::from_cbor_bstr(Value::Bytes(b.to_vec()))
                        .map(Decoded::Protected)
                },
            },
        ]
    })
}

pub fn endpoint(name: &str) -> Option<&'static Endpoint> {
    endpoints().iter().find(|e| e.name == name)
}

/// The untagged endpoint of a type family.
pub fn untagged_of(ty: &str) -> Option<&'static Endpoint> {
    endpoints()
        .iter()
        .find(|e| e.ty == ty && e.form == Form::Untagged)
}

pub fn tagged_of(ty: &str) -> Option<&'static Endpoint> {
    endpoints()
        .iter()
        .find(|e| e.ty == ty && e.form == Form::Tagged)
}

/// Independent table of the registered CBOR tags (RFC 8152 / IANA CBOR tags registry).
pub const REG_TAGS: &[(&str, u64)] = &[
    ("CoseSign", 98),
    ("CoseSign1", 18),
    ("CoseEncrypt", 96),
    ("CoseEncrypt0", 16),
    ("CoseMac", 97),
    ("CoseMac0", 17),
];

pub fn reg_tag(ty: &str) -> Option<u64> {
    REG_TAGS.iter().find(|(t, _)| *t == ty).map(|(_, n)| *n)
}

/// Error class (variant name) for counters and oracles.
pub fn err_class(e: &CoseError) -> &'static str {
    match e {
        CoseError::DecodeFailed(inner) => {
            use coset::cbor::de::Error::*;
            match inner {
                Io(_) => "DecodeFailed(Io/EOF)",
                Syntax(_) => "DecodeFailed(Syntax)",
                Semantic(_, _) => "DecodeFailed(Semantic)",
                RecursionLimitExceeded => "DecodeFailed(RecursionLimitExceeded)",
            }
        }
        CoseError::DuplicateMapKey => "DuplicateMapKey",
        CoseError::EncodeFailed => "EncodeFailed",
        CoseError::ExtraneousData => "ExtraneousData",
        CoseError::OutOfRangeIntegerValue => "OutOfRangeIntegerValue",
        CoseError::UnexpectedItem(_, _) => "UnexpectedItem",
        CoseError::UnregisteredIanaValue => "UnregisteredIanaValue",
        CoseError::UnregisteredIanaNonPrivateValue => "UnregisteredIanaNonPrivateValue",
    }
}
