//! cosim - deterministic simulation harness for google/coset (see /verif/DESIGN.md).

#![allow(dead_code)]
mod alloc;
mod c01;
mod c01gen;
mod c06;
mod c13;
mod c14;
mod c19;
mod common;
mod endpoints;
mod engine;
mod model;
mod palette;
mod refcbor;
mod rng;
mod runner;
mod trace;
mod traffic;
mod util;

use engine::{Engine, Tier};

#[global_allocator]
static GLOBAL: alloc::Counting = alloc::Counting;

static C19: c19::C19 = c19::C19;
static C01: c01::C01 = c01::C01;
static C06: c06::C06 = c06::C06;
static C13: c13::C13 = c13::C13;
static C14: c14::C14 = c14::C14;

fn engines() -> Vec<&'static dyn Engine> {
    vec![&C01, &C06, &C13, &C14, &C19]
}

fn find(id: &str) -> Option<&'static dyn Engine> {
    engines().into_iter().find(|e| e.id() == id)
}

fn arg_val<'a>(args: &'a [String], key: &str) -> Option<&'a str> {
    args.iter()
        .position(|a| a == key)
        .and_then(|i| args.get(i + 1))
        .map(|s| s.as_str())
}

fn usage() -> i32 {
    eprintln!(
        "usage:\n  cosim <ID> [--tier quick|thorough] [--seed N] [--jobs N] [--runs N]\n  cosim <ID> --replay <file>\n  cosim selftest-determinism [--runs N]\n  cosim worker <ID> --tier T --seed S --from A --to B   (internal)\n  cosim exec --replay <file>                            (internal)"
    );
    2
}

fn main() {
    let args: Vec<String> = std::env::args().skip(1).collect();
    let code = real_main(&args);
    std::process::exit(code);
}

fn env_seed() -> u64 {
    std::env::var("VERIF_SEED")
        .ok()
        .and_then(|s| s.trim().parse::<u64>().ok())
        .unwrap_or(1)
}

fn real_main(args: &[String]) -> i32 {
    if args.is_empty() {
        return usage();
    }
    common::install_quiet_panic_hook();
    match args[0].as_str() {
        "worker" => {
            let id = match args.get(1) {
                Some(x) => x,
                None => return usage(),
            };
            let e = match find(id) {
                Some(e) => e,
                None => return usage(),
            };
            let tier = arg_val(args, "--tier")
                .and_then(Tier::parse)
                .unwrap_or(Tier::Quick);
            let seed = arg_val(args, "--seed")
                .and_then(|s| s.parse().ok())
                .unwrap_or(1);
            let from = arg_val(args, "--from")
                .and_then(|s| s.parse().ok())
                .unwrap_or(0);
            let to = arg_val(args, "--to")
                .and_then(|s| s.parse().ok())
                .unwrap_or(0);
            let emit = args.iter().any(|a| a == "--emit-hashes");
            let config = arg_val(args, "--config").unwrap_or("default").to_string();
            runner::worker_main(e, tier, seed, from, to, emit, config)
        }
        "exec" => match arg_val(args, "--replay") {
            Some(p) => runner::exec_main(&engines(), p),
            None => usage(),
        },
        "selftest-determinism" => selftest_determinism(args),
        id => {
            let e = match find(id) {
                Some(e) => e,
                None => return usage(),
            };
            if let Some(p) = arg_val(args, "--replay") {
                return runner::replay_main(&engines(), p);
            }
            let tier = arg_val(args, "--tier")
                .map(|s| s.to_string())
                .or_else(|| std::env::var("VERIF_TIER").ok())
                .and_then(|s| Tier::parse(&s))
                .unwrap_or(Tier::Quick);
            let seed = arg_val(args, "--seed")
                .and_then(|s| s.parse().ok())
                .unwrap_or_else(env_seed);
            let jobs = arg_val(args, "--jobs")
                .and_then(|s| s.parse().ok())
                .unwrap_or(16);
            let runs = arg_val(args, "--runs").and_then(|s| s.parse().ok());
            let opts = runner::Opts {
                tier,
                seed,
                jobs,
                runs,
                emit_hashes: false,
                write_evidence: !args.iter().any(|a| a == "--no-evidence"),
                config: None,
            };
            runner::run_check(e, &opts).exit
        }
    }
}

/// Run every engine twice (jobs=1 and jobs=16, separate worker processes) over many seeds and
/// compare the per-run trace hashes and the merged outcome.
fn selftest_determinism(args: &[String]) -> i32 {
    let runs: u64 = arg_val(args, "--runs")
        .and_then(|s| s.parse().ok())
        .unwrap_or(20_000);
    let mut bad = 0;
    let requested = runs;
    for e in engines() {
        // an engine whose single run is a whole sweep (C13, C14) gets proportionally fewer runs
        let runs = requested.min((e.runs(Tier::Quick) / 4).max(100));
        for seed in [1u64, 2, 0xdead_beef] {
            let a = runner::run_check(
                e,
                &runner::Opts {
                    tier: Tier::Quick,
                    seed,
                    jobs: 1,
                    runs: Some(runs),
                    emit_hashes: true,
                    write_evidence: false,
                    config: None,
                },
            );
            let b = runner::run_check(
                e,
                &runner::Opts {
                    tier: Tier::Quick,
                    seed,
                    jobs: 16,
                    runs: Some(runs),
                    emit_hashes: true,
                    write_evidence: false,
                    config: None,
                },
            );
            if a.exit == 2 || b.exit == 2 {
                eprintln!("selftest: harness error for {} seed {}", e.id(), seed);
                bad += 1;
                continue;
            }
            if a.run_hashes != b.run_hashes
                || (a.run_hashes.len() as u64) < runs
                || a.exit != b.exit
                || a.outcome_digest != b.outcome_digest
            {
                eprintln!(
                    "selftest: NON-DETERMINISM for {} seed {}: {} vs {} run hashes, exits {} / {}, outcome digests {:016x} / {:016x}",
                    e.id(),
                    seed,
                    a.run_hashes.len(),
                    b.run_hashes.len(),
                    a.exit,
                    b.exit,
                    a.outcome_digest,
                    b.outcome_digest
                );
                for (x, y) in a.outcome_items.iter().zip(b.outcome_items.iter()) {
                    if x != y {
                        eprintln!("selftest:   differs: {:?} vs {:?}", x, y);
                    }
                }
                bad += 1;
            } else {
                println!("selftest: {} seed {}: {} runs: traces and outcomes (counters, distinct sets, violations) identical under jobs=1 and jobs=16", e.id(), seed, runs);
            }
        }
    }
    if bad == 0 {
        0
    } else {
        2
    }
}
