#!/usr/bin/env python3
"""Confirm a seeded property-breaking change and run the checks against it.

usage: tools/seed_eval.py <seed-name> <property-id> [--checks C01,C06,...] [--tier quick]

<seed-name> refers to /tmp/seed-<name>/ (patch.diff, demo.rs, notes.md) produced by a sub-agent in the
scratch worktree /tmp/wt-<name>.  Steps:
 1. scratch worktree: existing test suite with the change (must pass), demo with the change (must
    fail), demo without the change (must pass);
 2. apply patch.diff to /repo, run the registered check(s), undo;
 3. store /verif/seeded/<name>/{patch.diff,demo.rs,notes.md,meta.json}.
"""
import json, os, shutil, subprocess, sys

def run(cmd, cwd=None, timeout=1800):
    env = dict(os.environ, CARGO_NET_OFFLINE="true")
    p = subprocess.run(cmd, cwd=cwd, shell=True, capture_output=True, text=True, timeout=timeout, env=env)
    return p.returncode, p.stdout + p.stderr

def main():
    name, prop = sys.argv[1], sys.argv[2]
    checks = [prop]
    tier = "quick"
    if "--checks" in sys.argv:
        checks = sys.argv[sys.argv.index("--checks") + 1].split(",")
    if "--tier" in sys.argv:
        tier = sys.argv[sys.argv.index("--tier") + 1]
    seed = f"/tmp/seed-{name}"
    if not os.path.exists(f"{seed}/patch.diff"):
        seed = f"/verif/seeded/{name}"   # re-check of an already stored seed
    wt = f"/tmp/wt-{name}"
    patch = f"{seed}/patch.diff"
    meta = {"name": name, "property": prop, "ran": []}
    if os.path.isdir(wt):
        # normalise: worktree at HEAD + patch + demo
        run("git checkout -- src", cwd=wt)
        rc, out = run(f"git apply {patch}", cwd=wt)
        if rc != 0:
            print("patch does not apply to scratch worktree:", out); sys.exit(2)
        os.makedirs(f"{wt}/tests", exist_ok=True)
        shutil.copy(f"{seed}/demo.rs", f"{wt}/tests/demo.rs")
        rc, out = run("cargo test --offline --lib 2>&1 | grep -E '^test result'", cwd=wt)
        suite_ok = "117 passed; 0 failed" in out
        rc2, out2 = run("cargo test --offline --doc 2>&1 | grep -E '^test result'", cwd=wt)
        doc_ok = "1 passed; 0 failed" in out2
        meta["existing_suite_with_change"] = (out.strip() + " | " + out2.strip())
        rc3, out3 = run("timeout 600 cargo test --offline --test demo 2>&1 | tail -15", cwd=wt)
        demo_fails_with = ("test result: ok" not in out3)
        meta["demo_with_change"] = "FAILS" if demo_fails_with else "passes"
        run("git checkout -- src", cwd=wt)
        rc4, out4 = run("timeout 600 cargo test --offline --test demo 2>&1 | tail -15", cwd=wt)
        demo_passes_without = ("test result: ok" in out4 and "0 failed" in out4)
        meta["demo_without_change"] = "passes" if demo_passes_without else "FAILS"
        run(f"git apply {patch}", cwd=wt)
        meta["confirmed"] = bool(suite_ok and doc_ok and demo_fails_with and demo_passes_without)
        print(f"[{name}] suite_ok={suite_ok} doc_ok={doc_ok} demo_fails_with={demo_fails_with} demo_passes_without={demo_passes_without}")
        if not meta["confirmed"]:
            print(out3[-1500:]); print(out4[-800:])
    else:
        meta["confirmed"] = None
        print(f"[{name}] scratch worktree gone; not re-confirming")
    # run the checks against it
    rc, out = run("git -C /repo status --porcelain --untracked-files=no")
    if out.strip():
        print("/repo not clean"); sys.exit(2)
    try:
        rc, out = run(f"git -C /repo apply {patch}")
        if rc != 0:
            print("patch does not apply to /repo:", out); sys.exit(2)
        for c in checks:
            rc, out = run(f"/verif/check {c} {tier} --no-evidence", timeout=7200)
            lines = [l for l in out.splitlines() if l.startswith(("VIOLATION", "KNOWN-FINDING", "  invariant", "harness error", "cosim"))]
            verdict = {1: "CAUGHT", 0: "MISSED"}.get(rc, f"ERROR rc={rc}")
            print(f"[{name}] check {c} {tier}: {verdict}")
            for l in lines[:6]:
                print("    " + l[:400])
            meta["ran"].append({"check": f"./check {c} {tier}", "exit": rc, "verdict": verdict, "output": lines[:6]})
    finally:
        run("git -C /repo checkout -- .")
        run("rm -f /verif/replays/*.replay")
    dst = f"/verif/seeded/{name}"
    os.makedirs(dst, exist_ok=True)
    for f in ("patch.diff", "demo.rs", "notes.md"):
        if seed != dst and os.path.exists(f"{seed}/{f}"):
            shutil.copy(f"{seed}/{f}", f"{dst}/{f}")
    # keep hand-written fields of an existing meta.json
    old = {}
    if os.path.exists(f"{dst}/meta.json"):
        try:
            old = json.load(open(f"{dst}/meta.json"))
        except Exception:
            old = {}
    for k in ("breaks", "needs_to_manifest", "history"):
        if k in old:
            meta[k] = old[k]
    if meta.get("confirmed") is None:
        for k in ("confirmed", "existing_suite_with_change", "demo_with_change", "demo_without_change"):
            if k in old:
                meta[k] = old[k]
    json.dump(meta, open(f"{dst}/meta.json", "w"), indent=1)

main()
