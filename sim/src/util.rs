//! Small dependency-free helpers: hex, a stable 64-bit hash, a JSON writer.

use std::collections::BTreeMap;
use std::fmt::Write as _;

pub fn hex(b: &[u8]) -> String {
    let mut s = String::with_capacity(b.len() * 2);
    for x in b {
        let _ = write!(s, "{:02x}", x);
    }
    s
}

pub fn unhex(s: &str) -> Option<Vec<u8>> {
    let s = s.as_bytes();
    if s.len() % 2 != 0 {
        return None;
    }
    let nib = |c: u8| -> Option<u8> {
        match c {
            b'0'..=b'9' => Some(c - b'0'),
            b'a'..=b'f' => Some(c - b'a' + 10),
            b'A'..=b'F' => Some(c - b'A' + 10),
            _ => None,
        }
    };
    let mut out = Vec::with_capacity(s.len() / 2);
    for p in s.chunks(2) {
        out.push(nib(p[0])? << 4 | nib(p[1])?);
    }
    Some(out)
}

/// Short display of a byte string for samples: full hex up to 48 bytes, else head..tail and length.
pub fn hex_short(b: &[u8]) -> String {
    if b.len() <= 48 {
        hex(b)
    } else {
        format!(
            "{}..{}(len={})",
            hex(&b[..24]),
            hex(&b[b.len() - 8..]),
            b.len()
        )
    }
}

/// Stable 64-bit hash (not std's SipHash with random keys): FNV-1a folded through splitmix.
#[derive(Clone)]
pub struct Hasher64(u64);

impl Default for Hasher64 {
    fn default() -> Self {
        Self::new()
    }
}

impl Hasher64 {
    pub fn new() -> Self {
        Hasher64(0xcbf2_9ce4_8422_2325)
    }
    pub fn bytes(&mut self, b: &[u8]) -> &mut Self {
        // length-prefixed so that concatenations cannot collide trivially
        self.u64(b.len() as u64);
        let mut h = self.0;
        let mut chunks = b.chunks_exact(8);
        for c in &mut chunks {
            let w = u64::from_le_bytes([c[0], c[1], c[2], c[3], c[4], c[5], c[6], c[7]]);
            h = (h ^ w).wrapping_mul(0x9E37_79B9_7F4A_7C15).rotate_left(29);
        }
        for x in chunks.remainder() {
            h = (h ^ *x as u64).wrapping_mul(0x0000_0100_0000_01B3);
        }
        self.0 = h;
        self
    }
    pub fn str(&mut self, s: &str) -> &mut Self {
        self.bytes(s.as_bytes())
    }
    pub fn u64(&mut self, x: u64) -> &mut Self {
        self.0 = (self.0 ^ x)
            .wrapping_mul(0x9E37_79B9_7F4A_7C15)
            .rotate_left(31);
        self
    }
    pub fn finish(&self) -> u64 {
        let mut z = self.0;
        z = (z ^ (z >> 30)).wrapping_mul(0xBF58_476D_1CE4_E5B9);
        z = (z ^ (z >> 27)).wrapping_mul(0x94D0_49BB_1331_11EB);
        z ^ (z >> 31)
    }
}

pub fn hash_bytes(b: &[u8]) -> u64 {
    let mut h = Hasher64::new();
    h.bytes(b);
    h.finish()
}

/// Minimal JSON value and writer.
#[derive(Clone, Debug)]
pub enum Json {
    Null,
    Bool(bool),
    Int(i128),
    Num(f64),
    Str(String),
    Arr(Vec<Json>),
    Obj(Vec<(String, Json)>),
}

impl Json {
    pub fn obj() -> Json {
        Json::Obj(Vec::new())
    }
    pub fn set(&mut self, k: &str, v: Json) -> &mut Self {
        if let Json::Obj(o) = self {
            if let Some(e) = o.iter_mut().find(|(kk, _)| kk == k) {
                e.1 = v;
            } else {
                o.push((k.to_string(), v));
            }
        }
        self
    }
    pub fn s(x: impl Into<String>) -> Json {
        Json::Str(x.into())
    }
    pub fn i(x: impl Into<i128>) -> Json {
        Json::Int(x.into())
    }
    pub fn from_counts(m: &BTreeMap<String, u64>) -> Json {
        Json::Obj(
            m.iter()
                .map(|(k, v)| (k.clone(), Json::Int(*v as i128)))
                .collect(),
        )
    }
    pub fn strs(xs: &[String]) -> Json {
        Json::Arr(xs.iter().map(|s| Json::Str(s.clone())).collect())
    }

    pub fn render(&self) -> String {
        let mut s = String::new();
        self.write(&mut s, 0);
        s.push('\n');
        s
    }

    fn write(&self, out: &mut String, ind: usize) {
        match self {
            Json::Null => out.push_str("null"),
            Json::Bool(b) => out.push_str(if *b { "true" } else { "false" }),
            Json::Int(i) => {
                let _ = write!(out, "{}", i);
            }
            Json::Num(f) => {
                if f.is_finite() {
                    let _ = write!(out, "{:.3}", f);
                } else {
                    out.push_str("null");
                }
            }
            Json::Str(s) => write_json_str(out, s),
            Json::Arr(a) => {
                if a.is_empty() {
                    out.push_str("[]");
                    return;
                }
                out.push_str("[\n");
                for (i, v) in a.iter().enumerate() {
                    pad(out, ind + 1);
                    v.write(out, ind + 1);
                    if i + 1 < a.len() {
                        out.push(',');
                    }
                    out.push('\n');
                }
                pad(out, ind);
                out.push(']');
            }
            Json::Obj(o) => {
                if o.is_empty() {
                    out.push_str("{}");
                    return;
                }
                out.push_str("{\n");
                for (i, (k, v)) in o.iter().enumerate() {
                    pad(out, ind + 1);
                    write_json_str(out, k);
                    out.push_str(": ");
                    v.write(out, ind + 1);
                    if i + 1 < o.len() {
                        out.push(',');
                    }
                    out.push('\n');
                }
                pad(out, ind);
                out.push('}');
            }
        }
    }
}

fn pad(out: &mut String, n: usize) {
    for _ in 0..n {
        out.push(' ');
    }
}

fn write_json_str(out: &mut String, s: &str) {
    out.push('"');
    for c in s.chars() {
        match c {
            '"' => out.push_str("\\\""),
            '\\' => out.push_str("\\\\"),
            '\n' => out.push_str("\\n"),
            '\r' => out.push_str("\\r"),
            '\t' => out.push_str("\\t"),
            c if (c as u32) < 0x20 => {
                let _ = write!(out, "\\u{:04x}", c as u32);
            }
            c => out.push(c),
        }
    }
    out.push('"');
}

/// Counter map with stable (sorted) iteration.
#[derive(Clone, Debug, Default)]
pub struct Counters(pub BTreeMap<String, u64>);

impl Counters {
    pub fn inc(&mut self, k: &str) {
        self.add(k, 1);
    }
    pub fn add(&mut self, k: &str, n: u64) {
        if let Some(v) = self.0.get_mut(k) {
            *v += n;
        } else {
            self.0.insert(k.to_string(), n);
        }
    }
    pub fn max(&mut self, k: &str, n: u64) {
        let e = self.0.entry(k.to_string()).or_insert(0);
        if n > *e {
            *e = n;
        }
    }
    pub fn get(&self, k: &str) -> u64 {
        self.0.get(k).copied().unwrap_or(0)
    }
    /// Merge: keys starting with "max:" are merged by maximum, everything else by sum.
    pub fn merge(&mut self, other: &Counters) {
        for (k, v) in &other.0 {
            if k.starts_with("max:") {
                self.max(k, *v);
            } else {
                self.add(k, *v);
            }
        }
    }
}
