#!/bin/sh
# Seed sweep from private copies of the binaries (safe to run while /verif/sim is being rebuilt).
# usage: tools/sweep.sh <tier> <first-seed> <last-seed> [ids...]     (run with cwd = any scratch dir)
# Prints one line per (id, seed); exit 1 if any run did not exit 0.
TIER="$1"; A="$2"; B="$3"; shift 3
IDS="${*:-C01 C06 C13 C14 C19}"
# the binaries in /verif/target may stem from a build against a temporarily patched /repo
# (tools/seed_eval.py, tools/sensitivity.sh): rebuild against the current tree first
if [ -n "$(git -C /repo status --porcelain --untracked-files=no)" ]; then echo "/repo working tree is not clean; refusing to sweep" >&2; exit 2; fi
/verif/check build >/dev/null || exit 2
D=$(mktemp -d /tmp/cosim-sweep.XXXXXX)
cp /verif/target/release/cosim "$D/cosim" && cp /verif/target/std/plain/cosim "$D/cosim-std" || exit 2
export COSIM_STD_EXE="$D/cosim-std"
bad=0
s="$A"
while [ "$s" -le "$B" ]; do
    for id in $IDS; do
        out=$("$D/cosim" "$id" --tier "$TIER" --seed "$s" --jobs 16 --no-evidence 2>&1); rc=$?
        echo "seed=$s $id rc=$rc $(echo "$out" | grep 'done:' | sed 's/.*done: //')"
        if [ $rc -ne 0 ]; then bad=1; echo "$out" | grep -E "VIOLATION|invariant|harness|note" | head -8; fi
    done
    s=$((s+1))
done
rm -rf "$D"
exit $bad
