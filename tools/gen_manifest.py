#!/usr/bin/env python3
"""Regenerates /verif/MANIFEST.json from the tables below (kept as a script so that the claimed
set, the not-applicable list and the commands stay consistent)."""
import json, sys

NA = {
 "C02": "Quantifies over all valid CBOR encodings of one header (non-canonical widths, indefinite lengths, key order, 41 a0): an input space. No transport fault turns a canonical header into another valid encoding of the same content and coset's own encoder never emits them, so a simulation of coset parties only carries bytes for which 'retain' and 're-encode' coincide; no schedule, clock, dependency failure or in-flight fault appears in the statement (DESIGN.md 6).",
 "C03": "Pure function of (context, headers, AAD, payload) judged against RFC 8152 4.4; a symmetric deviation is invisible to any sender/receiver simulation built from coset on both sides; input space only (DESIGN.md 6).",
 "C04": "As C03 for MAC_structure (RFC 8152 6.3): pure single-call function compared with an external specification; nothing to schedule or fault (DESIGN.md 6).",
 "C05": "As C03 for Enc_structure (RFC 8152 5.3): pure single-call function compared with an external specification (DESIGN.md 6).",
 "C07": "Interesting only on non-canonical accepted inputs (bignum integers, indefinite lengths); a relay hop is an honest processing step, not a fault, and coset-originated traffic is already at the fixed point; input generation, not simulation (DESIGN.md 6).",
 "C08": "Iff over all CBOR maps versus RFC 8152 3.1: one call's argument judged against an external specification; no history, dependency, environment or in-flight fault in the statement (DESIGN.md 6).",
 "C09": "Iff over all arrays and slot kinds versus the CDDL: input space only (DESIGN.md 6).",
 "C10": "Iff over all maps/arrays for COSE_Key and COSE_KeySet: input space only (DESIGN.md 6).",
 "C11": "All in-memory values versus the CDDL as read by an independent parser: input space only, no dynamics (DESIGN.md 6).",
 "C12": "Decode half is an iff over all maps, position pairs and label encodings; encode half quantifies over in-memory values that builders mostly cannot produce; no fault or environment dimension. Observations made while reading are listed in DESIGN.md 7 but not decided by this machinery.",
 "C15": "All integers in [-2^64, 2^64-1] x all interpreting positions: input space only (DESIGN.md 6).",
 "C16": "Algebraic law over all pairs/triples of labels: input space only (DESIGN.md 6).",
 "C17": "Finite table comparison against the IANA registries: exhaustive enumeration, no dynamics (DESIGN.md 6).",
 "C18": "Iff over input maps and arrays for CWT claims sets and KDF contexts: input space only (DESIGN.md 6).",
 "C20": "All keys x label sets x initial permutations judged against RFC 8949 4.2.1 / RFC 7049 3.9; canonicalize is the one mutating non-builder call but 'again is a no-op' is a corollary of sortedness; the substance is the label input space (DESIGN.md 6).",
}

CHECKS = {
 "C01": dict(
   category="exploration",
   text="Receiver survival under a Byzantine wire inside a resource envelope: valid traffic of every type is corrupted by seeded byte-level and Byzantine-peer faults (cut, append/dup, flip/set, delete/insert/splice, length-head inflation, re-encoding, subtree substitution, nesting along every decoder recursion cycle) and delivered to all 31 byte-level decoding endpoints running in child processes on a 2 MiB thread stack under a budgeted counting allocator, a CPU-time envelope relative to a reference parse, scaling probes and a watchdog, with coset built with and without its std feature; every accepted value is then cloned, compared (with its clone, with hand-modified copies and with nearly equal accepted values), re-encoded, dropped and handed to every helper whose documented precondition holds, the caller's callback itself using the library again before it returns (re-entrancy). The oracle is survival: no panic, abort, stack overflow, budget breach, super-linear cost or hang; violations that need earlier calls in the same process are reported with a history replay. Exploration (sampled), which is the right level for an all-byte-strings property whose failures need faults and environment limits to line up.",
   design_ref="DESIGN.md 5.1, 7, Appendix D",
   note="Samples the neighbourhood of valid traffic and the nesting axes, not all byte strings. 'Ordinary thread stack' is fixed as Rust's 2 MiB default for spawned threads with release-profile code generation; allocation budgets are linear in input length with constants >= 4x the measured worst legitimate case. Crypto closures are stubs.",
   technique="deterministic simulation with fault injection: seeded wire faults + environment envelope (stack, allocator budget, watchdog) on child-process nodes, replay + minimisation"),
 "C06": dict(
   category="exploration",
   text="Sender histories -> wire -> receiver: seeded histories over all public methods of the nine creating builders (embedded/detached, fallible/infallible, nested recipients) with a recording crypto stub that can fail on command and that uses the library itself while it runs; histories include blocks of up to 70 000 signers; the built message is encoded, passed through a wire that applies region-targeted tampering, decoded, and verified/decrypted under equal and perturbed AAD/payload. A reference model tracks the covered tuple at every create event; invariants I1-I6 (stored value, same bytes iff same tuple over all pairs of log entries, result pass-through, failing creator, no panic, wire fidelity: the encoded message carries exactly what the builder was given) are checked; the receiver also verifies a clone, a second encode+decode hop and the documented edit-after-decode. Exploration over histories and fault sequences.",
   design_ref="DESIGN.md 5.2",
   note="Both sides are coset, so a deviation applied identically to creator and verifier is invisible (that is C03-C05, not claimed). Palettes bound the argument space. Crypto is a stub returning unique tokens.",
   technique="deterministic simulation with fault injection: seeded builder histories, failing-dependency and wire-tamper faults, reference-model oracle, replay + minimisation"),
 "C13": dict(
   category="fault_enumeration",
   text="Truncation and coalescing faults enumerated at every cut point of every simulated message: each message produced by the seeded originators (all types, tagged and untagged) is cut at every byte offset, extended with every suffix of a palette (single bytes, valid items, itself, the next message, garbage), and has every protected-header bstr cut/extended with the outer framing kept valid; accepted-prefix, accepted-suffix, wrong-error and layer-disagreement are violations. Weak fit, disclosed: the check is stateless; the simulator contributes exhaustive fault placement per message, replay and minimisation.",
   design_ref="DESIGN.md 5.3, 1",
   note="Exhaustive over cut points per message, sampled over messages and suffixes. Layer agreement compares coset with itself.",
   technique="deterministic simulation with fault injection: exhaustive torn-write / coalescing fault placement per simulated message"),
 "C14": dict(
   category="fault_enumeration",
   text="Misdelivery and tag-head corruption enumerated for every simulated taggable message: the tagged bytes of each message are delivered to all six tagged and untagged decoders, the tag head is rewritten to every number of a ~230-entry palette (0..127, registered numbers and neighbours, all one-bit flips, arithmetic derivatives, seeded 64-bit numbers) in several head widths, double-tagged with every palette number, given malformed heads, and stripped; bodies are valid, invalid, non-canonical or nested at the parser's depth limit; acceptance must be exactly 'own registered tag once over an accepted body' with the same value. Weak fit, disclosed: stateless; the simulator contributes exhaustive endpoint x tag placement, replay and minimisation.",
   design_ref="DESIGN.md 5.4, 1",
   note="Registered tag numbers come from an independent table in the harness; 'a body the untagged decoder accepts' is decided by coset's own untagged decoder. One known finding (own tag rejected for bodies nested exactly to the CBOR parser's depth limit) is listed in known_findings.txt and printed as KNOWN-FINDING; see DESIGN.md 10.8.",
   technique="deterministic simulation with fault injection: exhaustive misdelivery / tag-corruption placement per simulated message"),
 "C19": dict(
   category="exploration",
   text="Builder call histories refined against a field-map reference model: seeded histories of 0-16 calls over every public method of all 14 builders (and the five key constructors) with palettes containing empty, boundary and reserved values are executed on the real builders and on a model that applies each call's documented effect; every public field of the built value is compared, documented refusals (panics) must occur exactly when predicted, and the tokens returned by the stub creator functions are bound to the bytes they were handed (expected bytes computed by the model), so the built value shows what was signed, MACed or encrypted. No fault dimension exists for builders; this is the conformance half of the operation-history-versus-reference-model method. Exploration over histories.",
   design_ref="DESIGN.md 5.5, Appendix A",
   note="Model encodes the doc comments and the property statement; param(0, ..) left open; CoseKdfContext observed through its encoding; histories up to 16 calls over finite palettes.",
   technique="deterministic simulation: seeded operation histories against an executable reference model (no fault dimension), replay + minimisation"),
}

def main():
    claimed = sys.argv[1:] or sorted(CHECKS)
    checks = []
    for pid in sorted(claimed):
        c = CHECKS[pid]
        checks.append({
            "property_id": pid,
            "quick_cmd": f"./check {pid} quick",
            "thorough_cmd": f"./check {pid} thorough",
            "evidence_file": f"/verif/evidence/{pid}.json",
            "replay_cmd_template": f"./check {pid} --replay {{path}}",
            "engine": "cosim",
            "level_claimed": {"category": c["category"], "text": c["text"], "design_ref": c["design_ref"]},
            "level_note": c["note"],
            "technique": c["technique"],
        })
    na = [{"property_id": k, "reason": v} for k, v in sorted(NA.items())]
    for pid in sorted(CHECKS):
        if pid not in claimed:
            na.append({"property_id": pid, "reason": "check under construction in this session; will be claimed once its engine is committed (DESIGN.md 5)"})
    na.sort(key=lambda x: x["property_id"])
    m = {
        "version": 1,
        "setup_cmd": "./check build",
        "hooks": {
            "guard": "coset_verif",
            "enable": "no hooks are needed: every seam used (caller closures, byte slices, GlobalAlloc, thread stack size, cargo feature, child processes) exists outside the crate; the guard name is recorded for schema completeness and is unused",
            "baseline_off_cmd": "cd /repo && cargo test --workspace --no-fail-fast --offline",
            "source_commits": [],
            "add_only": True,
        },
        "engines": [{
            "name": "cosim",
            "path": "/verif/sim",
            "serves_properties": sorted(claimed),
            "kind_free_text": "dependency-free Rust crate: own PRNG (splitmix64/xoshiro256**), own CBOR reader/writer, reference model, trace/replay/minimiser, supervised worker processes; links coset from /repo by path and rebuilds on every check",
        }],
        "checks": checks,
        "not_applicable": na,
        "notes": "All checks run under two builds of coset (std feature off, debug assertions and overflow checks on: all runs; std feature on, ordinary release profile: a quarter of them again). Technique family: deterministic simulation with fault injection. coset has no threads, clock, I/O or shared state, so 15 of 20 properties (pure single-call input properties judged against RFCs) are answered not applicable rather than re-decided with another technique; see DESIGN.md sections 0, 1 and 6. C13 and C14 are disclosed weak fits. Known findings protocol: /verif/known_findings.txt.",
    }
    json.dump(m, open("/verif/MANIFEST.json", "w"), indent=1)
    print("wrote MANIFEST.json with checks:", ", ".join(sorted(claimed)))

main()
