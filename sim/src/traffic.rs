//! Originators: seeded generation of *valid* traffic of every type, as model values and as
//! reference CBOR trees (encoded by the harness's own writer, so the traffic does not depend on
//! coset's encoder).

use crate::model::*;
use crate::palette::*;
use crate::refcbor::{self, Item};
use crate::rng::Rng;

/// Type families that have a decoding endpoint.
pub const MESSAGE_TYPES: &[&str] = &[
    "Header",
    "ProtectedHeader",
    "CoseSignature",
    "CoseSign",
    "CoseSign1",
    "CoseMac",
    "CoseMac0",
    "CoseEncrypt",
    "CoseEncrypt0",
    "CoseRecipient",
    "CoseKey",
    "CoseKeySet",
    "ClaimsSet",
    "PartyInfo",
    "SuppPubInfo",
    "CoseKdfContext",
    "Label",
    "KeyType",
    "KeyOperation",
    "CritLabel",
    "ContentType",
    "Algorithm",
    "ClaimName",
    "Value",
];

pub const TAGGABLE: &[&str] = &[
    "CoseSign",
    "CoseSign1",
    "CoseMac",
    "CoseMac0",
    "CoseEncrypt",
    "CoseEncrypt0",
];

#[derive(Clone, Copy)]
pub struct GenCfg {
    /// upper bound for "large" byte/text strings
    pub big: usize,
    /// chance (out of 64) that a byte string is large
    pub big_chance: u32,
}

impl GenCfg {
    pub fn small() -> GenCfg {
        GenCfg {
            big: 300,
            big_chance: 2,
        }
    }
    pub fn medium() -> GenCfg {
        GenCfg {
            big: 5000,
            big_chance: 2,
        }
    }
}

pub fn gen_bytes(rng: &mut Rng, cfg: &GenCfg) -> Vec<u8> {
    let n = if rng.chance(cfg.big_chance, 64) {
        // length classes around the CBOR head boundaries and ciborium's 4096 scratch buffer
        let classes = [23usize, 24, 255, 256, 4095, 4096, 4097, cfg.big];
        (*rng.pick(&classes)).min(cfg.big)
    } else {
        match rng.below(8) {
            0 => 0,
            1 => 1,
            2 => 23,
            3 => 24,
            _ => rng.range(1, 40),
        }
    };
    rng.bytes(n)
}

pub fn gen_nonempty_bytes(rng: &mut Rng, cfg: &GenCfg) -> Vec<u8> {
    let mut b = gen_bytes(rng, cfg);
    if b.is_empty() {
        b.push(rng.next_u64() as u8);
    }
    b
}

pub fn gen_text(rng: &mut Rng, cfg: &GenCfg) -> String {
    // 1 text in 6 is shaped like the structured strings applications put into these fields: URIs
    // with (well-formed and malformed) percent escapes, e-mail addresses, dates, media types
    if rng.chance(1, 6) {
        const SCHEMES: &[&str] = &[
            "http", "https", "urn", "coap+tcp", "a", "tag", "mailto", "1bad", "",
        ];
        const PARTS: &[&str] = &[
            "//example.com/",
            "a",
            "%41",
            "%",
            "%€",
            "%4",
            "%zz",
            "%é",
            "%4𝄞",
            "?q=1",
            "#f",
            "@",
            ":",
            ".",
            "+",
            "=",
            "&",
            "é",
            "€",
            "2026-10-01T00:00:00Z",
            "user@example.com",
            " ",
        ];
        let mut s = String::new();
        s.push_str(SCHEMES[rng.below(SCHEMES.len())]);
        s.push(':');
        for _ in 0..rng.range(0, 5) {
            s.push_str(PARTS[rng.below(PARTS.len())]);
        }
        return s;
    }
    const ALPH: &[&str] = &[
        "a", "b", "z", "0", "-", "_", "é", "€", "𝄞", " ", "/", ":", "%", ".", "@", "?", "#", "=",
        "+", "\"", "\\", "\u{0}", "\n", ";",
    ];
    let n = if rng.chance(cfg.big_chance, 64) {
        rng.range(20, cfg.big.min(5000))
    } else {
        rng.range(0, 12)
    };
    let mut s = String::new();
    while s.len() < n {
        s.push_str(ALPH[rng.below(ALPH.len())]);
    }
    s
}

pub fn gen_value(rng: &mut Rng, depth: usize) -> MValue {
    let pal = value_palette();
    if rng.chance(1, 16) {
        return MValue::Float(float_bits(rng));
    }
    if depth >= 3 || rng.chance(3, 4) {
        let mut v = pal[rng.below(pal.len())].clone();
        if let MValue::Int(_) = v {
            if rng.bool() {
                v = MValue::Int(rng.next_u64() as i64 as i128 >> rng.below(64));
            }
        }
        v
    } else {
        match rng.below(3) {
            0 => MValue::Array(
                (0..rng.below(4))
                    .map(|_| gen_value(rng, depth + 1))
                    .collect(),
            ),
            1 => {
                // below the typed level a map is opaque to coset: keys may repeat, be of any kind
                let n = rng.below(4);
                let dup = rng.chance(1, 4);
                MValue::Map(
                    (0..n)
                        .map(|i| {
                            let k = if dup {
                                MValue::Int(1)
                            } else if rng.chance(1, 4) {
                                MValue::Text(["a", "b", "a"][i % 3].to_string())
                            } else {
                                MValue::Int(i as i128)
                            };
                            (k, gen_value(rng, depth + 1))
                        })
                        .collect(),
                )
            }
            _ => MValue::Tag(rng.below(300) as u64, Box::new(gen_value(rng, depth + 1))),
        }
    }
}

fn gen_alg(rng: &mut Rng) -> MRegP {
    match rng.below(8) {
        0 => MRegP::Private(-65537 - rng.below(1000) as i64),
        1 => MRegP::Text(["custom", "", "ES256"][rng.below(3)].to_string()),
        2 | 3 => MRegP::Assigned(*rng.pick(all_algs())),
        _ => MRegP::Assigned(*rng.pick(ALGS)),
    }
}

fn gen_extra_labels(
    rng: &mut Rng,
    n: usize,
    forbidden: std::ops::RangeInclusive<i64>,
) -> Vec<MLabel> {
    let mut out: Vec<MLabel> = Vec::new();
    while out.len() < n {
        let l = if rng.chance(1, 4) {
            MLabel::Text(["x", "lbl", "", "kid"][rng.below(4)].to_string())
        } else {
            let i = match rng.below(6) {
                0 => *rng.pick(LABELS),
                1 => -(rng.below(70000) as i64) - 1,
                _ => 8 + rng.below(2000) as i64,
            };
            if forbidden.contains(&i) {
                continue;
            }
            MLabel::Int(i)
        };
        if !out.contains(&l) {
            out.push(l);
        }
    }
    out
}

pub fn gen_header(rng: &mut Rng, cfg: &GenCfg, depth: usize) -> MHeader {
    let mut h = MHeader::default();
    if rng.chance(1, 6) {
        return h;
    }
    if rng.bool() {
        h.alg = Some(gen_alg(rng));
    }
    if rng.chance(1, 4) {
        for _ in 0..rng.range(1, 3) {
            h.crit.push(if rng.chance(1, 4) {
                MReg::Text("crit".into())
            } else {
                MReg::Assigned(if rng.bool() {
                    *rng.pick(all_header_params())
                } else {
                    *rng.pick(&HEADER_PARAMS[..HEADER_PARAMS.len() - 1])
                })
            });
        }
    }
    if rng.chance(1, 3) {
        h.content_type = Some(if rng.bool() {
            MReg::Assigned(if rng.bool() {
                *rng.pick(all_content_formats())
            } else {
                *rng.pick(CONTENT_FORMATS)
            })
        } else {
            MReg::Text(["text/plain", "application/cbor", "a/b"][rng.below(3)].to_string())
        });
    }
    if rng.bool() {
        h.key_id = gen_nonempty_bytes(rng, cfg);
    }
    match rng.below(4) {
        0 => h.iv = gen_nonempty_bytes(rng, &GenCfg::small()),
        1 => h.partial_iv = gen_nonempty_bytes(rng, &GenCfg::small()),
        _ => {}
    }
    if depth < 2 && rng.chance(1, 5) {
        for _ in 0..rng.range(1, 2) {
            h.counter_signatures
                .push(gen_signature(rng, cfg, depth + 1));
        }
    }
    if rng.chance(1, 3) {
        let n = rng.range(1, 3);
        for l in gen_extra_labels(rng, n, 1..=7) {
            h.rest.push((l, gen_value(rng, 0)));
        }
    }
    if rng.chance(1, 4) {
        // a registered extension parameter in one of the shapes such parameters take
        let (l, v) = crate::common::gen_registered_pair(rng, 0);
        let l = MLabel::Int(l as i64);
        if !h.rest.iter().any(|(k, _)| *k == l) {
            h.rest.push((l, v));
        }
    }
    h
}

pub fn gen_protected(rng: &mut Rng, cfg: &GenCfg, depth: usize) -> MProtected {
    MProtected::built(gen_header(rng, cfg, depth))
}

pub fn gen_signature(rng: &mut Rng, cfg: &GenCfg, depth: usize) -> MSignature {
    MSignature {
        protected: gen_protected(rng, cfg, depth),
        unprotected: gen_header(rng, cfg, depth),
        signature: gen_bytes(rng, cfg),
    }
}

fn gen_opt_bytes(rng: &mut Rng, cfg: &GenCfg) -> Option<Vec<u8>> {
    if rng.chance(1, 4) {
        None
    } else {
        Some(gen_bytes(rng, cfg))
    }
}

pub fn gen_recipient(rng: &mut Rng, cfg: &GenCfg, depth: usize) -> MRecipient {
    MRecipient {
        protected: gen_protected(rng, cfg, 1),
        unprotected: gen_header(rng, cfg, 1),
        ciphertext: gen_opt_bytes(rng, cfg),
        recipients: if depth < 2 && rng.chance(1, 4) {
            (0..rng.range(1, 2))
                .map(|_| gen_recipient(rng, cfg, depth + 1))
                .collect()
        } else {
            vec![]
        },
    }
}

/// How many siblings (signers, recipients, keys of a set) beyond the few drawn individually: 1
/// case in 40 pads the list with small copies up to a count where the array head changes width.
fn padding_count(rng: &mut Rng) -> usize {
    if rng.chance(1, 40) {
        *rng.pick(&[23usize, 24, 25, 255, 256, 257])
    } else {
        0
    }
}

pub fn gen_sign(rng: &mut Rng, cfg: &GenCfg) -> MSign {
    MSign {
        protected: gen_protected(rng, cfg, 0),
        unprotected: gen_header(rng, cfg, 0),
        payload: gen_opt_bytes(rng, cfg),
        signatures: {
            let mut v: Vec<MSignature> = (0..rng.range(0, 3))
                .map(|_| gen_signature(rng, cfg, 1))
                .collect();
            let n = padding_count(rng);
            while v.len() < n {
                v.push(MSignature {
                    signature: vec![v.len() as u8],
                    ..Default::default()
                });
            }
            v
        },
    }
}

pub fn gen_sign1(rng: &mut Rng, cfg: &GenCfg) -> MSign1 {
    MSign1 {
        protected: gen_protected(rng, cfg, 0),
        unprotected: gen_header(rng, cfg, 0),
        payload: gen_opt_bytes(rng, cfg),
        signature: gen_bytes(rng, cfg),
    }
}

pub fn gen_mac(rng: &mut Rng, cfg: &GenCfg) -> MMac {
    MMac {
        protected: gen_protected(rng, cfg, 0),
        unprotected: gen_header(rng, cfg, 0),
        payload: gen_opt_bytes(rng, cfg),
        tag: gen_bytes(rng, cfg),
        recipients: {
            let mut v: Vec<MRecipient> = (0..rng.range(0, 2))
                .map(|_| gen_recipient(rng, cfg, 0))
                .collect();
            let n = padding_count(rng);
            while v.len() < n {
                v.push(MRecipient {
                    ciphertext: Some(vec![v.len() as u8]),
                    ..Default::default()
                });
            }
            v
        },
    }
}

pub fn gen_mac0(rng: &mut Rng, cfg: &GenCfg) -> MMac0 {
    MMac0 {
        protected: gen_protected(rng, cfg, 0),
        unprotected: gen_header(rng, cfg, 0),
        payload: gen_opt_bytes(rng, cfg),
        tag: gen_bytes(rng, cfg),
    }
}

pub fn gen_encrypt(rng: &mut Rng, cfg: &GenCfg) -> MEncrypt {
    MEncrypt {
        protected: gen_protected(rng, cfg, 0),
        unprotected: gen_header(rng, cfg, 0),
        ciphertext: gen_opt_bytes(rng, cfg),
        recipients: {
            let mut v: Vec<MRecipient> = (0..rng.range(0, 2))
                .map(|_| gen_recipient(rng, cfg, 0))
                .collect();
            let n = padding_count(rng);
            while v.len() < n {
                v.push(MRecipient {
                    ciphertext: Some(vec![v.len() as u8]),
                    ..Default::default()
                });
            }
            v
        },
    }
}

pub fn gen_encrypt0(rng: &mut Rng, cfg: &GenCfg) -> MEncrypt0 {
    MEncrypt0 {
        protected: gen_protected(rng, cfg, 0),
        unprotected: gen_header(rng, cfg, 0),
        ciphertext: gen_opt_bytes(rng, cfg),
    }
}

pub fn gen_key(rng: &mut Rng, cfg: &GenCfg) -> MKey {
    let mut k = MKey {
        kty: if rng.chance(1, 6) {
            MReg::Text("custom-kty".into())
        } else {
            MReg::Assigned(*rng.pick(&KEY_TYPES[1..]))
        },
        ..Default::default()
    };
    if rng.bool() {
        k.key_id = gen_nonempty_bytes(rng, cfg);
    }
    if rng.bool() {
        k.alg = Some(gen_alg(rng));
    }
    if rng.chance(1, 3) {
        for _ in 0..rng.range(1, 3) {
            k.key_ops.insert(if rng.chance(1, 5) {
                MReg::Text("op".into())
            } else {
                MReg::Assigned(*rng.pick(all_key_ops()))
            });
        }
    }
    if rng.chance(1, 4) {
        k.base_iv = gen_nonempty_bytes(rng, &GenCfg::small());
    }
    let n = rng.range(0, 4);
    for l in gen_extra_labels(rng, n, 1..=5) {
        let v = if rng.bool() {
            MValue::Bytes(gen_bytes(rng, cfg))
        } else {
            gen_value(rng, 0)
        };
        k.params.push((l, v));
    }
    if rng.chance(1, 4) {
        let (l, v) = crate::common::gen_registered_pair(rng, 1);
        let l = MLabel::Int(l as i64);
        if !k.params.iter().any(|(k, _)| *k == l) {
            k.params.push((l, v));
        }
    }
    k
}

fn gen_ts(rng: &mut Rng) -> MTimestamp {
    if rng.chance(2, 3) {
        MTimestamp::Whole(*rng.pick(TIMESTAMPS_WHOLE))
    } else {
        MTimestamp::Frac(if rng.bool() {
            float_bits(rng)
        } else {
            rng.pick(TIMESTAMPS_FRAC).to_bits()
        })
    }
}

pub fn gen_claims(rng: &mut Rng, cfg: &GenCfg) -> MClaims {
    let mut c = MClaims::default();
    if rng.bool() {
        c.issuer = Some(gen_text(rng, cfg));
    }
    if rng.bool() {
        c.subject = Some(gen_text(rng, cfg));
    }
    if rng.chance(1, 3) {
        c.audience = Some(gen_text(rng, cfg));
    }
    if rng.bool() {
        c.expiration_time = Some(gen_ts(rng));
    }
    if rng.chance(1, 3) {
        c.not_before = Some(gen_ts(rng));
    }
    if rng.chance(1, 3) {
        c.issued_at = Some(gen_ts(rng));
    }
    if rng.chance(1, 3) {
        c.cwt_id = Some(gen_bytes(rng, cfg));
    }
    let n = rng.range(0, 3);
    let mut names: Vec<MRegP> = Vec::new();
    while names.len() < n {
        let nm = match rng.below(3) {
            0 => MRegP::Assigned(*rng.pick(&[-260i64, -259, -258, -257, 8, 9, 38, 39, 40])),
            1 => MRegP::Private(if rng.chance(1, 4) {
                *rng.pick(&[
                    i64::MIN,
                    i64::MIN + 1,
                    -(1i64 << 32),
                    -(1i64 << 31) - 1,
                    -65537,
                    -65538,
                ])
            } else {
                -65537 - rng.below(100) as i64
            }),
            _ => MRegP::Text(["claim", "", "x"][rng.below(3)].to_string()),
        };
        if !names.contains(&nm) {
            names.push(nm);
        }
    }
    for nm in names {
        c.rest.push((nm, gen_value(rng, 0)));
    }
    c
}

pub fn gen_party(rng: &mut Rng, cfg: &GenCfg) -> MPartyInfo {
    MPartyInfo {
        identity: gen_opt_bytes(rng, cfg),
        nonce: match rng.below(3) {
            0 => None,
            1 => Some(MNonce::Bytes(gen_bytes(rng, &GenCfg::small()))),
            _ => Some(MNonce::Integer(*rng.pick(NONCE_INTS))),
        },
        other: gen_opt_bytes(rng, cfg),
    }
}

pub fn gen_supp(rng: &mut Rng, cfg: &GenCfg) -> MSuppPubInfo {
    MSuppPubInfo {
        key_data_length: *rng.pick(KEY_DATA_LENGTHS),
        protected: gen_protected(rng, cfg, 1),
        other: if rng.bool() {
            Some(gen_bytes(rng, cfg))
        } else {
            None
        },
    }
}

pub fn gen_kdf(rng: &mut Rng, cfg: &GenCfg) -> MKdf {
    MKdf {
        algorithm_id: gen_alg(rng),
        party_u_info: gen_party(rng, cfg),
        party_v_info: gen_party(rng, cfg),
        supp_pub_info: gen_supp(rng, cfg),
        supp_priv_info: (0..rng.below(3)).map(|_| gen_bytes(rng, cfg)).collect(),
    }
}

/// One valid message of type family `ty` as a reference CBOR tree (untagged).
pub fn gen_item(rng: &mut Rng, ty: &str, cfg: &GenCfg) -> Item {
    match ty {
        "Header" | "ProtectedHeader" => gen_header(rng, cfg, 0).to_item(),
        "CoseSignature" => gen_signature(rng, cfg, 0).to_item(),
        "CoseSign" => gen_sign(rng, cfg).to_item(),
        "CoseSign1" => gen_sign1(rng, cfg).to_item(),
        "CoseMac" => gen_mac(rng, cfg).to_item(),
        "CoseMac0" => gen_mac0(rng, cfg).to_item(),
        "CoseEncrypt" => gen_encrypt(rng, cfg).to_item(),
        "CoseEncrypt0" => gen_encrypt0(rng, cfg).to_item(),
        "CoseRecipient" => gen_recipient(rng, cfg, 0).to_item(),
        "CoseKey" => gen_key(rng, cfg).to_item(),
        "CoseKeySet" => Item::array({
            let mut v: Vec<Item> = (0..rng.range(0, 3))
                .map(|_| gen_key(rng, cfg).to_item())
                .collect();
            let n = padding_count(rng);
            while v.len() < n {
                v.push(Item::map(vec![(Item::uint(1), Item::uint(4))]));
            }
            v
        }),
        "ClaimsSet" => gen_claims(rng, cfg).to_item(),
        "PartyInfo" => gen_party(rng, cfg).to_item(),
        "SuppPubInfo" => gen_supp(rng, cfg).to_item(),
        "CoseKdfContext" => gen_kdf(rng, cfg).to_item(),
        "Label" => {
            if rng.chance(1, 4) {
                Item::text(&gen_text(rng, cfg))
            } else {
                Item::int(*rng.pick(LABELS) as i128)
            }
        }
        "KeyType" => reg_item(rng, &KEY_TYPES[1..]),
        "KeyOperation" => reg_item(rng, KEY_OPS),
        "CritLabel" => reg_item(rng, HEADER_PARAMS),
        "ContentType" => reg_item(rng, CONTENT_FORMATS),
        "Algorithm" => gen_alg(rng).to_item(),
        "ClaimName" => {
            if rng.chance(1, 4) {
                Item::int(-65537 - rng.below(1000) as i128)
            } else {
                reg_item(rng, CLAIM_NAMES)
            }
        }
        _ => gen_value(rng, 0).to_item(),
    }
}

fn reg_item(rng: &mut Rng, xs: &[i64]) -> Item {
    if rng.chance(1, 5) {
        Item::text(["t", "", "text/plain"][rng.below(3)])
    } else {
        Item::int(*rng.pick(xs) as i128)
    }
}

/// Bytes of one valid message; `tagged` applies the registered tag (taggable types only).
pub fn gen_wire(rng: &mut Rng, ty: &str, tagged: bool, cfg: &GenCfg) -> Vec<u8> {
    let it = gen_item(rng, ty, cfg);
    let it = if tagged {
        match crate::endpoints::reg_tag(ty) {
            Some(t) => Item::tag(t, it),
            None => it,
        }
    } else {
        it
    };
    refcbor::encode(&it)
}

/// A value of type family `ty` assembled in memory from a seeded model value through struct
/// literals (never decoded from bytes): the "all values" side of encode-direction properties.
pub fn gen_built(rng: &mut Rng, ty: &str, cfg: &GenCfg) -> Option<crate::endpoints::Decoded> {
    use crate::endpoints::Decoded as D;
    Some(match ty {
        "Header" => D::Header(gen_header(rng, cfg, 0).to_coset()),
        "ProtectedHeader" => D::Protected(gen_protected(rng, cfg, 0).to_coset()),
        "CoseSignature" => D::Signature(gen_signature(rng, cfg, 0).to_coset()),
        "CoseSign" => D::Sign(gen_sign(rng, cfg).to_coset()),
        "CoseSign1" => D::Sign1(gen_sign1(rng, cfg).to_coset()),
        "CoseMac" => D::Mac(gen_mac(rng, cfg).to_coset()),
        "CoseMac0" => D::Mac0(gen_mac0(rng, cfg).to_coset()),
        "CoseEncrypt" => D::Encrypt(gen_encrypt(rng, cfg).to_coset()),
        "CoseEncrypt0" => D::Encrypt0(gen_encrypt0(rng, cfg).to_coset()),
        "CoseRecipient" => D::Recipient(gen_recipient(rng, cfg, 0).to_coset()),
        "CoseKey" => D::Key(gen_key(rng, cfg).to_coset()),
        "CoseKeySet" => D::KeySet(coset::CoseKeySet({
            let mut v: Vec<coset::CoseKey> = (0..rng.range(0, 3))
                .map(|_| gen_key(rng, cfg).to_coset())
                .collect();
            let n = padding_count(rng);
            while v.len() < n {
                v.push(coset::CoseKey {
                    kty: coset::KeyType::Assigned(coset::iana::KeyType::Symmetric),
                    ..Default::default()
                });
            }
            v
        })),
        "ClaimsSet" => D::Claims(gen_claims(rng, cfg).to_coset()),
        "PartyInfo" => D::Party(gen_party(rng, cfg).to_coset()),
        "SuppPubInfo" => D::SuppPub(gen_supp(rng, cfg).to_coset()),
        "CoseKdfContext" => {
            let k = gen_kdf(rng, cfg);
            let mut b = coset::CoseKdfContextBuilder::new()
                .party_u_info(k.party_u_info.to_coset())
                .party_v_info(k.party_v_info.to_coset())
                .supp_pub_info(k.supp_pub_info.to_coset());
            for p in &k.supp_priv_info {
                b = b.add_supp_priv_info(p.clone());
            }
            D::Kdf(b.build())
        }
        "Label" => D::Label(if rng.chance(1, 4) {
            coset::Label::Text(gen_text(rng, cfg))
        } else {
            coset::Label::Int(*rng.pick(LABELS))
        }),
        _ => return None,
    })
}

/// Default (empty) value of a type family.
pub fn default_built(ty: &str) -> Option<crate::endpoints::Decoded> {
    use crate::endpoints::Decoded as D;
    Some(match ty {
        "Header" => D::Header(Default::default()),
        "ProtectedHeader" => D::Protected(Default::default()),
        "CoseSignature" => D::Signature(Default::default()),
        "CoseSign" => D::Sign(Default::default()),
        "CoseSign1" => D::Sign1(Default::default()),
        "CoseMac" => D::Mac(Default::default()),
        "CoseMac0" => D::Mac0(Default::default()),
        "CoseEncrypt" => D::Encrypt(Default::default()),
        "CoseEncrypt0" => D::Encrypt0(Default::default()),
        "CoseRecipient" => D::Recipient(Default::default()),
        "CoseKey" => D::Key(Default::default()),
        "CoseKeySet" => D::KeySet(Default::default()),
        "ClaimsSet" => D::Claims(Default::default()),
        "PartyInfo" => D::Party(Default::default()),
        "SuppPubInfo" => D::SuppPub(Default::default()),
        "CoseKdfContext" => D::Kdf(Default::default()),
        _ => return None,
    })
}
