//! C13 - an accepted input is exactly one CBOR item; byte and Value APIs agree.
//! Truncation (`cut(k)` at every k), coalescing/duplication (`append(s)`) and the same two faults
//! inside every protected-header bstr (`inner-cut`, `inner-append`, outer framing kept valid) are
//! enumerated for every message the seeded originators produce; the byte-level and Value-level
//! routes are compared on every delivery.

use crate::common::guarded;
use crate::endpoints::*;
use crate::engine::*;
use crate::refcbor::{self, Item, Kind};
use crate::rng::Rng;
use crate::trace::*;
use crate::traffic::*;
use crate::util::{hash_bytes, hex_short, Hasher64};
use coset::CoseError;

pub struct C13;

/// Single-byte suffix palette (24 values): every major type's first byte, break, simple values.
const SUFFIX_BYTES: &[u8] = &[
    0x00, 0x01, 0x17, 0x18, 0x20, 0x37, 0x40, 0x41, 0x5f, 0x60, 0x61, 0x7f, 0x80, 0x81, 0x9f, 0xa0,
    0xa1, 0xbf, 0xc0, 0xd2, 0xf4, 0xf6, 0xff, 0xfe,
];

fn max_len(tier: Tier) -> usize {
    match tier {
        Tier::Quick => 4096,
        Tier::Thorough => 65536,
    }
}

/// Paths of the protected-header byte strings of a message of type `ty` (type-directed walk; the
/// arbitrary CBOR kept in extra header parameters is never entered).
pub fn protected_slots(root: &Item, ty: &str) -> Vec<Vec<usize>> {
    let mut out = Vec::new();
    fn header(h: &Item, path: &mut Vec<usize>, out: &mut Vec<Vec<usize>>) {
        if let Kind::Map(m) = &h.kind {
            for (i, (k, v)) in m.iter().enumerate() {
                if k.as_int() == Some(7) {
                    path.push(2 * i + 1);
                    if let Kind::Array(a) = &v.kind {
                        if matches!(a.first().map(|x| &x.kind), Some(Kind::Bytes(_))) {
                            structure(v, path, out, Nested::None);
                        } else {
                            for (j, s) in a.iter().enumerate() {
                                path.push(j);
                                structure(s, path, out, Nested::None);
                                path.pop();
                            }
                        }
                    }
                    path.pop();
                }
            }
        }
    }
    #[derive(Clone, Copy)]
    enum Nested {
        None,
        /// index of an array of nested [protected, unprotected, ...] structures
        At(usize),
        /// recipient: optional 4th element
        Recipient,
    }
    fn structure(s: &Item, path: &mut Vec<usize>, out: &mut Vec<Vec<usize>>, nested: Nested) {
        if let Kind::Array(a) = &s.kind {
            if a.len() < 2 {
                return;
            }
            if matches!(a[0].kind, Kind::Bytes(_)) {
                path.push(0);
                out.push(path.clone());
                path.pop();
            }
            path.push(1);
            header(&a[1], path, out);
            path.pop();
            let idx = match nested {
                Nested::None => None,
                Nested::At(i) => Some(i),
                Nested::Recipient => {
                    if a.len() == 4 {
                        Some(3)
                    } else {
                        None
                    }
                }
            };
            if let Some(i) = idx {
                if let Some(Kind::Array(inner)) = a.get(i).map(|x| &x.kind) {
                    path.push(i);
                    for (j, r) in inner.iter().enumerate() {
                        path.push(j);
                        let n = Nested::Recipient;
                        structure(r, path, out, n);
                        path.pop();
                    }
                    path.pop();
                }
            }
        }
    }
    let mut path = Vec::new();
    match ty {
        "Header" | "ProtectedHeader" => header(root, &mut path, &mut out),
        "CoseSignature" | "CoseSign1" | "CoseMac0" | "CoseEncrypt0" => {
            structure(root, &mut path, &mut out, Nested::None)
        }
        "CoseSign" => {
            // signatures: [protected, unprotected, signature] - a 3-element structure is never
            // taken for a recipient with nested recipients
            structure(root, &mut path, &mut out, Nested::At(3))
        }
        "CoseEncrypt" => structure(root, &mut path, &mut out, Nested::At(3)),
        "CoseMac" => structure(root, &mut path, &mut out, Nested::At(4)),
        "CoseRecipient" => structure(root, &mut path, &mut out, Nested::Recipient),
        "SuppPubInfo" => {
            if let Kind::Array(a) = &root.kind {
                if a.len() >= 2 {
                    out.push(vec![1]);
                }
            }
        }
        "CoseKdfContext" => {
            if let Kind::Array(a) = &root.kind {
                if let Some(Kind::Array(s)) = a.get(3).map(|x| &x.kind) {
                    if s.len() >= 2 {
                        out.push(vec![3, 1]);
                    }
                }
            }
        }
        _ => {}
    }
    out
}

#[derive(Clone)]
enum Fault {
    Cut(usize),
    Append(Vec<u8>, &'static str),
    InnerCut(usize, usize),
    InnerAppend(usize, Vec<u8>),
}

impl Fault {
    fn step(&self, ep: &str) -> Step {
        match self {
            Fault::Cut(k) => Step::new(
                "fault",
                "cut",
                vec![Arg::S(ep.replace(' ', "_")), Arg::I(*k as i128)],
            ),
            Fault::Append(s, _) => Step::new(
                "fault",
                "append",
                vec![Arg::S(ep.replace(' ', "_")), Arg::B(s.clone())],
            ),
            Fault::InnerCut(slot, k) => Step::new(
                "fault",
                "inner-cut",
                vec![
                    Arg::S(ep.replace(' ', "_")),
                    Arg::I(*slot as i128),
                    Arg::I(*k as i128),
                ],
            ),
            Fault::InnerAppend(slot, s) => Step::new(
                "fault",
                "inner-append",
                vec![
                    Arg::S(ep.replace(' ', "_")),
                    Arg::I(*slot as i128),
                    Arg::B(s.clone()),
                ],
            ),
        }
    }
    fn kind(&self) -> &'static str {
        match self {
            Fault::Cut(_) => "cut",
            Fault::Append(_, k) => k,
            Fault::InnerCut(_, _) => "inner-cut",
            Fault::InnerAppend(_, _) => "inner-append",
        }
    }
}

fn decode_guarded(
    f: fn(&[u8]) -> Result<Decoded, CoseError>,
    b: &[u8],
) -> Result<Result<Decoded, CoseError>, String> {
    guarded(|| f(b))
}

struct Ctx<'a> {
    t: &'a Trace,
    msg: &'a [u8],
    st: &'a mut RunStats,
}

impl<'a> Ctx<'a> {
    fn narrowed(&self, fault: &Fault, ep: &str) -> Trace {
        let mut n = self.t.clone();
        n.steps.retain(|s| s.kind != "fault");
        n.steps.push(fault.step(ep));
        n
    }

    /// Deliver `bytes` (a faulted variant) to `ep`; apply the layer-agreement check; return the
    /// byte-level outcome.
    fn deliver(
        &mut self,
        ep: &Endpoint,
        bytes: &[u8],
        fault: Option<&Fault>,
    ) -> Result<(Result<Decoded, CoseError>, Option<Violation>), Violation> {
        self.st.inc("evaluations");
        let a = match decode_guarded(ep.decode, bytes) {
            Ok(r) => r,
            Err(p) => {
                let v = Violation::new(
                    "C13.panic",
                    format!("{} panicked on {}: {}", ep.name, hex_short(bytes), p),
                );
                return Err(match fault {
                    Some(f) => v.narrowed(self.narrowed(f, ep.name)),
                    None => v,
                });
            }
        };
        let b = match decode_guarded(ep.decode_via_value, bytes) {
            Ok(r) => r,
            Err(p) => {
                return Err(Violation::new(
                    "C13.panic",
                    format!(
                        "{} (Value route) panicked on {}: {}",
                        ep.name,
                        hex_short(bytes),
                        p
                    ),
                ))
            }
        };
        let agree = match (&a, &b) {
            (Ok(x), Ok(y)) => x.same(y),
            // two refusals agree when they are the same refusal: once either route has reached
            // the conversion stage (an "unexpected item" error), kind and texts must be equal
            (Err(x), Err(y)) => {
                // (untagged entry points only: there the Value route is coset's public
                // `from_cbor_value` itself; for the tagged ones the harness supplies the tag check
                // and its wording)
                if !ep.name.contains("tagged")
                    && (err_class(x) == "UnexpectedItem" || err_class(y) == "UnexpectedItem")
                {
                    format!("{:?}", x) == format!("{:?}", y)
                } else {
                    true
                }
            }
            _ => false,
        };
        if !agree {
            let v = Violation::new(
                "C13.layers-disagree",
                format!(
                    "{}: byte-level decode gives {} but parse-then-convert gives {} on {}",
                    ep.name,
                    outcome_str(&a),
                    outcome_str(&b),
                    hex_short(bytes)
                ),
            );
            let v = match fault {
                Some(f) => v.narrowed(self.narrowed(f, ep.name)),
                None => v,
            };
            return Ok((a, Some(v)));
        }
        Ok((a, None))
    }
}

/// Every point in 0..len when len <= limit; otherwise both ends, 256 evenly spaced points and the
/// neighbourhood of 2^8, 2^16 (places where length heads change width).
fn sample_points(len: usize, limit: usize) -> Vec<usize> {
    if len <= limit {
        return (0..len).collect();
    }
    let mut v: Vec<usize> = (0..64).collect();
    v.extend(len - 64..len);
    v.extend((0..256).map(|i| i * len / 256));
    for c in [255usize, 256, 65_535, 65_536, 65_537] {
        for d in 0..6 {
            if c + d >= 3 && c + d - 3 < len {
                v.push(c + d - 3);
            }
        }
    }
    v.sort();
    v.dedup();
    v
}

/// Inner (protected-bstr) faults are judged at the sender type's own endpoints only.
fn inner_eligible(ep: &Endpoint, ty: &str) -> bool {
    let is_hdr = |t: &str| t == "Header" || t == "ProtectedHeader";
    ep.ty == ty || (is_hdr(ty) && is_hdr(ep.ty))
}

fn outcome_str(r: &Result<Decoded, CoseError>) -> String {
    match r {
        Ok(_) => "Ok".into(),
        Err(e) => format!("Err({})", err_class(e)),
    }
}

/// Rebuild the message with the content of the protected slot at `path` replaced.
fn with_slot(root: &Item, path: &[usize], content: Vec<u8>, tagged_wrapper: bool) -> Vec<u8> {
    let mut r = root.clone();
    let full: Vec<usize> = if tagged_wrapper {
        std::iter::once(0).chain(path.iter().copied()).collect()
    } else {
        path.to_vec()
    };
    if let Some(it) = refcbor::get_mut(&mut r, &full) {
        it.kind = Kind::Bytes(content);
    }
    refcbor::encode(&r)
}

impl Engine for C13 {
    fn id(&self) -> &'static str {
        "C13"
    }
    fn info(&self) -> EngineInfo {
        EngineInfo {
            level: "fault_enumeration",
            rule: "Each run is one simulated message: a seeded originator produces a valid value of one of 24 type families (reference-encoded by the harness, tagged or untagged), which is delivered pristine to all 31 endpoints; at every endpoint that accepts it, cut(k) is enumerated for EVERY k in 0..len (bstr endpoint: 1..len; 1 message in 300 exceeds 64 KiB and has its cut points sampled at both ends, 256 evenly spaced points and around 2^8 / 2^16), append(s) for a 24-byte single-byte palette (all 256 bytes for a quarter of the messages), padding to 4/8/16-byte boundaries with 00/ff/20, line ends, break bytes, plus a valid item, the message itself (dup), the next message (coalesce) and seeded garbage, and inner-cut(k) for every k / inner-append(s) on every protected-header bstr with the outer framing rewritten; every delivery is also run through the Value-level route. evaluations = faulted deliveries. A case is non-trivial when the pristine message is accepted by at least one endpoint and is at least 2 bytes long; distinct = distinct pristine byte strings (64-bit hash).",
            distinct_classes: &["(endpoint, fault kind, outcome class) triples", "(sender type, accepting endpoint) pairs"],
            assumptions: &[
                "exhaustive over cut points per message; sampled over messages and suffixes",
                "traffic is produced by the harness's own encoder from model values: canonical CBOR, and for a quarter of the messages a seeded non-canonical re-encoding (wide heads, indefinite lengths)",
                "layer agreement compares coset's byte-level API with parse-then-convert through coset's own Value conversions",
                "inner faults are judged only at the sender type's own endpoints (other endpoints may read the same bytes as opaque parameters)",
            ],
            real_components: &["all 31 coset byte-level decoders and the AsCborValue conversions; ciborium underneath", "coset encoders for the encode-direction layer check"],
            stub_components: &["originators (harness generators + harness CBOR writer)", "wire"],
            fault_kinds: &["cut(k) every k", "append(single byte x24)", "append(valid item)", "dup", "coalesce(next message)", "append(garbage)", "append(64KiB+ zeros / garbage)", "inner-cut(k) every k", "inner-append(s incl. 64KiB+)", "large messages (> 64 KiB, sampled cut points)"],
            design_ref: "DESIGN.md section 5.3",
        }
    }
    fn runs(&self, tier: Tier) -> u64 {
        match tier {
            Tier::Quick => 40_000,
            Tier::Thorough => 1_500_000,
        }
    }
    fn batch(&self) -> u64 {
        64
    }
    fn gen(&self, seed: u64, run: u64, tier: Tier) -> Trace {
        let mut rng = Rng::for_run(seed, run, "C13");
        let mut t = Trace::new("C13", seed, run);
        let ty = MESSAGE_TYPES[rng.below(MESSAGE_TYPES.len())];
        let tagged = TAGGABLE.contains(&ty) && rng.bool();
        let cfg = if rng.chance(1, 16) {
            GenCfg {
                big: max_len(tier) / 2,
                big_chance: 4,
            }
        } else if rng.chance(1, 4) {
            GenCfg::medium()
        } else {
            GenCfg::small()
        };
        let mut msg = gen_wire(&mut rng, ty, tagged, &cfg);
        // keep the quadratic enumeration bounded
        let mut guard = 0;
        while msg.len() > max_len(tier) && guard < 8 {
            msg = gen_wire(&mut rng, ty, tagged, &GenCfg::small());
            guard += 1;
        }
        // 1 message in 300 is large (byte strings of ~70 kB, message beyond 64 KiB); its cut points
        // are sampled (both ends, evenly spaced, around 2^16) instead of enumerated
        if rng.chance(1, 300) {
            let bigty = [
                "CoseSign1",
                "CoseMac0",
                "CoseEncrypt0",
                "CoseSign",
                "Header",
                "CoseKey",
                "CoseKdfContext",
                "ClaimsSet",
            ][rng.below(8)];
            let t2 = TAGGABLE.contains(&bigty) && rng.bool();
            let m = gen_wire(
                &mut rng,
                bigty,
                t2,
                &GenCfg {
                    big: 70_000,
                    big_chance: 24,
                },
            );
            if m.len() > 65_536 {
                msg = m;
                t.set_meta("type", bigty);
                t.set_meta("form", if t2 { "tagged" } else { "untagged" });
                t.set_meta("size", "large");
            }
        }
        // 1 message in 40 carries, in its unprotected header, a value nested right at the CBOR
        // parser's depth limit (entry points must agree there too)
        if t.meta("size").is_none() && rng.chance(1, 40) {
            let mty = [
                "CoseSign1",
                "CoseMac0",
                "CoseEncrypt0",
                "CoseSign",
                "CoseMac",
                "CoseEncrypt",
                "CoseSignature",
                "CoseRecipient",
            ][rng.below(8)];
            let mtag = TAGGABLE.contains(&mty) && rng.bool();
            let it = gen_item(&mut rng, mty, &GenCfg::small());
            let mut a = it.as_array().cloned().unwrap_or_default();
            let d = rng.range(246, 258);
            let nk = rng.below(3);
            let mut v = Item::uint(0);
            for _ in 0..d {
                v = match nk {
                    0 => Item::array(vec![v]),
                    1 => Item::map(vec![(Item::uint(0), v)]),
                    _ => Item::tag(1, v),
                };
            }
            if a.len() >= 2 {
                a[1] = Item::map(vec![(Item::uint(99), v)]);
                let mut body = Item::array(a);
                if mtag {
                    if let Some(tg) = reg_tag(mty) {
                        body = Item::tag(tg, body);
                    }
                }
                msg = refcbor::encode(&body);
                t.set_meta("type", mty);
                t.set_meta("form", if mtag { "tagged" } else { "untagged" });
                t.set_meta("size", "nested-at-limit");
            }
        }
        // a quarter of the (small) messages travel in a non-canonical but valid encoding: wide heads,
        // indefinite-length strings / arrays / maps (a relay that re-serialises)
        if t.meta("size").is_none() && rng.chance(1, 4) {
            if let Ok(mut item) = refcbor::read_exact(&msg) {
                // a third of these also carry some integers as bignums (tag 2 / 3 around a byte
                // string), which the CBOR layer folds back into plain integers
                if rng.chance(1, 3) {
                    refcbor::bignumify(&mut rng, &mut item, 0);
                }
                // ... and a quarter write some of their `null`s as `undefined`
                if rng.chance(1, 4) {
                    refcbor::undefine(&mut rng, &mut item, 0);
                }
                let mut out = Vec::new();
                let widen = rng.range(0, 6) as u32;
                let indef = rng.range(1, 8) as u32;
                refcbor::write_item(
                    &item,
                    &mut out,
                    &mut refcbor::Seeded {
                        rng: &mut rng,
                        widen,
                        indef,
                    },
                );
                if out.len() <= max_len(tier) && out != msg {
                    msg = out;
                    t.set_meta("encoding", "non-canonical");
                }
            }
        }
        // 1 small message in 24 carries one of its strings as a chunk of a chunked string
        // (`5f 5f 41 aa ff ff`): not well-formed by RFC 8949 3.2.3, yet read by CBOR layers that
        // concatenate chunks - whatever coset makes of it, both API layers must make the same
        if t.meta("size").is_none() && rng.chance(1, 24) {
            if let Ok(item) = refcbor::read_exact(&msg) {
                let strings: Vec<(usize, usize, u8)> = refcbor::paths(&item)
                    .iter()
                    .filter_map(|p| refcbor::get(&item, p))
                    .filter_map(|n| match &n.kind {
                        Kind::Bytes(_) if !n.indefinite && n.end > n.start => {
                            Some((n.start, n.end, 0x5fu8))
                        }
                        Kind::Text(_) if !n.indefinite && n.end > n.start => {
                            Some((n.start, n.end, 0x7fu8))
                        }
                        _ => None,
                    })
                    .collect();
                if !strings.is_empty() {
                    let (a, b, open) = strings[rng.below(strings.len())];
                    let mut out = msg[..a].to_vec();
                    out.extend([open, open]);
                    out.extend_from_slice(&msg[a..b]);
                    out.extend([0xff, 0xff]);
                    out.extend_from_slice(&msg[b..]);
                    if refcbor::read_exact(&out).is_ok() {
                        msg = out;
                        t.set_meta("encoding", "chunk-in-chunk");
                    }
                }
            }
        }
        let nty = MESSAGE_TYPES[rng.below(MESSAGE_TYPES.len())];
        let next = gen_wire(&mut rng, nty, false, &GenCfg::small());
        let glen = rng.range(1, 64);
        let garbage = rng.bytes(glen);
        if t.meta("size").is_none() {
            t.set_meta("type", ty);
            t.set_meta("form", if tagged { "tagged" } else { "untagged" });
        }
        t.push(Step::new("msg", "message", vec![Arg::B(msg)]));
        t.push(Step::new("msg", "next", vec![Arg::B(next)]));
        t.push(Step::new("msg", "garbage", vec![Arg::B(garbage)]));
        t
    }
    fn step_is_fixed(&self, t: &Trace, idx: usize) -> bool {
        t.steps[idx].kind == "msg" || t.steps[idx].kind == "fault"
    }
    fn exec(&self, t: &Trace, st: &mut RunStats) -> HResult<Option<Violation>> {
        let ty = t.meta_req("type")?.to_string();
        let tagged = t.meta_req("form")? == "tagged";
        let find = |n: &str| t.steps.iter().find(|s| s.kind == "msg" && s.name == n);
        let msg = find("message")
            .ok_or_else(|| HarnessError("no message step".into()))?
            .bytes(0)?
            .to_vec();
        let next = find("next")
            .map(|s| s.bytes(0).map(|b| b.to_vec()))
            .transpose()?
            .unwrap_or_default();
        let garbage = find("garbage")
            .map(|s| s.bytes(0).map(|b| b.to_vec()))
            .transpose()?
            .unwrap_or_default();
        let only: Vec<&Step> = t.steps.iter().filter(|s| s.kind == "fault").collect();
        let root = refcbor::read_exact(&msg)
            .map_err(|e| HarnessError(format!("generated message is not CBOR: {:?}", e)))?;
        let body = if tagged {
            match &root.kind {
                Kind::Tag(_, inner) => (**inner).clone(),
                _ => return herr("tagged message without tag"),
            }
        } else {
            root.clone()
        };
        let slots = protected_slots(&body, &ty);
        st.inc(&format!("messages:{}", ty));
        st.add("message_bytes", msg.len() as u64);
        st.max("max:message_len", msg.len() as u64);

        let mut cx = Ctx { t, msg: &msg, st };
        // pristine delivery to every endpoint
        let mut accepting: Vec<(&'static Endpoint, Decoded)> = Vec::new();
        for ep in endpoints() {
            if ep.form == Form::Bstr && !(ty == "Header" || ty == "ProtectedHeader") {
                // the bstr endpoint is fed header traffic only (anything else is just a rejected header)
                continue;
            }
            match cx.deliver(ep, &msg, None) {
                Ok((_, Some(v))) => return Ok(Some(v)),
                Ok((Ok(d), None)) => {
                    let mut h = Hasher64::new();
                    h.str(&ty).str(ep.name);
                    cx.st.distinct(2, h.finish());
                    accepting.push((ep, d));
                }
                Ok((Err(_), None)) => {}
                Err(v) => return Ok(Some(v)),
            }
        }
        if accepting.is_empty() {
            cx.st.inc("probe:pristine-rejected-everywhere");
            return Ok(None);
        }
        if msg.len() >= 2 {
            cx.st.distinct(0, hash_bytes(&msg));
        }
        let own_accepts = accepting
            .iter()
            .any(|(ep, _)| ep.ty == ty && ep.form != Form::Bstr);
        if !own_accepts {
            // the sender's own decoder refusing valid traffic is not a C13 matter; counted so that a
            // generator fault cannot hide (must stay 0 on the unchanged tree)
            cx.st.inc("probe:pristine-rejected-by-own-type");
        }

        // encode direction of the layer check, on every accepted value and on hand-modified copies
        // of it (states that decoding never produces but the public fields allow)
        let mut enc_subjects: Vec<(&'static Endpoint, Decoded)> = Vec::new();
        for (ep, d) in &accepting {
            enc_subjects.push((*ep, d.clone()));
            if ep.ty == ty {
                for (_what, v) in d.variants() {
                    enc_subjects.push((*ep, v));
                }
            }
        }
        // values assembled in memory (never decoded): three seeded ones of the run's type, the
        // default value, and hand-modified copies of each
        if let Some(own) = untagged_of(&ty) {
            let mut vr = Rng::for_run(t.seed, t.run, "C13-built");
            let mut built: Vec<Decoded> = Vec::new();
            for _ in 0..3 {
                if let Some(d) = gen_built(&mut vr, &ty, &GenCfg::small()) {
                    built.push(d);
                }
            }
            if let Some(d) = default_built(&ty) {
                built.push(d);
            }
            for d in built {
                for (_w, v) in d.variants() {
                    enc_subjects.push((own, v));
                }
                cx.st.inc("built-values-encoded");
                enc_subjects.push((own, d));
            }
        }
        for (ep, d) in &enc_subjects {
            let a = guarded(|| d.to_vec());
            let b = guarded(|| d.to_vec_via_value());
            cx.st.inc("evaluations");
            match (a, b) {
                (Ok(Ok(x)), Ok(Ok(y))) if x == y => {}
                (Ok(Err(_)), Ok(Err(_))) => {}
                (a, b) => {
                    return Ok(Some(Violation::new(
                        "C13.layers-disagree",
                        format!("{}: to_vec and into_writer(to_cbor_value) differ on the value decoded from {}: {:?} vs {:?}", ep.name, hex_short(&msg), a.map(|r| r.map(|v| hex_short(&v))), b.map(|r| r.map(|v| hex_short(&v)))),
                    )))
                }
            }
            if let (Some(tag), Some(tv)) =
                (reg_tag(ep.ty), guarded(|| d.to_tagged_vec()).ok().flatten())
            {
                let via = guarded(|| d.tagged_via_value(tag));
                cx.st.inc("evaluations");
                match (tv, via) {
                    (Ok(x), Ok(Ok(y))) if x == y => {}
                    (Err(_), Ok(Err(_))) => {}
                    (x, y) => {
                        return Ok(Some(Violation::new(
                            "C13.layers-disagree",
                            format!("{}: to_tagged_vec and into_writer(Tag(to_cbor_value)) differ: {:?} vs {:?}", ep.name, x.map(|v| hex_short(&v)), y.map(|r| r.map(|v| hex_short(&v)))),
                        )))
                    }
                }
            }
        }

        // fault list
        let mut faults: Vec<Fault> = Vec::new();
        for k in sample_points(msg.len(), 16_384) {
            faults.push(Fault::Cut(k));
        }
        // suffixes that push the total length beyond 2^16 (size-dependent code paths)
        faults.push(Fault::Append(vec![0u8; 65_537], "append(64KiB+ zeros)"));
        faults.push(Fault::Append(
            crate::palette::pat(70_000, 0x5a),
            "append(64KiB+ garbage)",
        ));
        if crate::util::hash_bytes(&msg) % 4 == 0 {
            // a quarter of the messages get every one of the 256 single-byte suffixes
            for b in 0..=255u8 {
                faults.push(Fault::Append(vec![b], "append(byte)"));
            }
        } else {
            for b in SUFFIX_BYTES {
                faults.push(Fault::Append(vec![*b], "append(byte)"));
            }
        }
        // padding and text-transport artefacts: zero / 0xff / space padding up to the next 4-, 8- and
        // 16-byte boundary, a fixed 16-byte zero block, line ends
        for fill in [0x00u8, 0xff, 0x20] {
            for b in [4usize, 8, 16] {
                let pad = (b - msg.len() % b) % b;
                if pad > 0 {
                    faults.push(Fault::Append(vec![fill; pad], "append(padding)"));
                }
            }
        }
        faults.push(Fault::Append(vec![0u8; 16], "append(padding)"));
        faults.push(Fault::Append(vec![0x0a], "append(line-end)"));
        faults.push(Fault::Append(vec![0x0d, 0x0a], "append(line-end)"));
        faults.push(Fault::Append(vec![0xff, 0xff], "append(breaks)"));
        faults.push(Fault::Append(vec![0x83, 0x01, 0x02, 0x03], "append(item)"));
        faults.push(Fault::Append(msg.clone(), "dup"));
        if !next.is_empty() {
            faults.push(Fault::Append(next.clone(), "coalesce"));
        }
        if !garbage.is_empty() {
            faults.push(Fault::Append(garbage.clone(), "append(garbage)"));
        }
        for (si, path) in slots.iter().enumerate() {
            if let Some(Kind::Bytes(content)) = refcbor::get(&body, path).map(|i| &i.kind) {
                for k in sample_points(content.len(), 4096) {
                    if k >= 1 {
                        faults.push(Fault::InnerCut(si, k));
                    }
                }
                if !content.is_empty() {
                    for b in [0x00u8, 0xa0, 0xff, 0x40] {
                        faults.push(Fault::InnerAppend(si, vec![b]));
                    }
                    faults.push(Fault::InnerAppend(si, content.clone()));
                    faults.push(Fault::InnerAppend(si, vec![0u8; 65_537]));
                }
            }
        }
        // replay of a narrowed trace: only the recorded faults
        let restrict: Option<Vec<(String, Fault)>> = if only.is_empty() {
            None
        } else {
            let mut v = Vec::new();
            for s in &only {
                let ep = s.sym(0)?.to_string();
                let f = match s.name.as_str() {
                    "cut" => Fault::Cut(s.usize(1)?),
                    "append" => Fault::Append(s.bytes(1)?.to_vec(), "append"),
                    "inner-cut" => Fault::InnerCut(s.usize(1)?, s.usize(2)?),
                    "inner-append" => Fault::InnerAppend(s.usize(1)?, s.bytes(2)?.to_vec()),
                    x => return herr(format!("unknown fault {}", x)),
                };
                v.push((ep, f));
            }
            Some(v)
        };

        for (ep, _d) in &accepting {
            let epn = ep.name.replace(' ', "_");
            let list: Vec<Fault> = match &restrict {
                None => faults.clone(),
                Some(r) => r
                    .iter()
                    .filter(|(e, _)| *e == epn)
                    .map(|(_, f)| f.clone())
                    .collect(),
            };
            for f in &list {
                let (bytes, must): (Vec<u8>, &str) = match f {
                    Fault::Cut(k) => {
                        if *k >= msg.len() {
                            continue;
                        }
                        if ep.form == Form::Bstr && *k == 0 {
                            // zero-length protected bstr is the documented empty-header form
                            continue;
                        }
                        (msg[..*k].to_vec(), "reject")
                    }
                    Fault::Append(s, _) => {
                        if s.is_empty() {
                            continue;
                        }
                        let mut b = msg.clone();
                        b.extend_from_slice(s);
                        (b, "extraneous")
                    }
                    Fault::InnerCut(si, k) => {
                        if !inner_eligible(ep, &ty) {
                            continue;
                        }
                        let path = match slots.get(*si) {
                            Some(p) => p,
                            None => continue,
                        };
                        let content = match refcbor::get(&body, path).map(|i| &i.kind) {
                            Some(Kind::Bytes(c)) => c,
                            _ => continue,
                        };
                        if *k == 0 || *k >= content.len() {
                            continue;
                        }
                        (
                            with_slot(&root, path, content[..*k].to_vec(), tagged),
                            "reject",
                        )
                    }
                    Fault::InnerAppend(si, s) => {
                        if !inner_eligible(ep, &ty) {
                            continue;
                        }
                        let path = match slots.get(*si) {
                            Some(p) => p,
                            None => continue,
                        };
                        let content = match refcbor::get(&body, path).map(|i| &i.kind) {
                            Some(Kind::Bytes(c)) => c,
                            _ => continue,
                        };
                        if content.is_empty() || s.is_empty() {
                            continue;
                        }
                        let mut c = content.clone();
                        c.extend_from_slice(s);
                        (with_slot(&root, path, c, tagged), "reject")
                    }
                };
                cx.st.inc(&format!("fault:{}", f.kind()));
                let (r, layer_v) = match cx.deliver(ep, &bytes, Some(f)) {
                    Ok(r) => r,
                    Err(v) => return Ok(Some(v)),
                };
                let mut h = Hasher64::new();
                h.str(ep.name).str(f.kind()).str(&outcome_str(&r));
                cx.st.distinct(1, h.finish());
                match (&r, must) {
                    (Ok(_), _) => {
                        let inv = match f {
                            Fault::Cut(_) => "C13.prefix-accepted",
                            Fault::Append(_, _) => "C13.suffix-accepted",
                            _ => "C13.inner-accepted",
                        };
                        return Ok(Some(
                            Violation::new(
                                inv,
                                format!("{} accepted the message (type {}, {} bytes) after fault {}: delivered {}", ep.name, ty, cx.msg.len(), f.step(ep.name).summary(), hex_short(&bytes)),
                            )
                            .narrowed(cx.narrowed(f, ep.name)),
                        ));
                    }
                    (Err(CoseError::ExtraneousData), "extraneous") => {}
                    (Err(e), "extraneous") => {
                        return Ok(Some(
                            Violation::new(
                                "C13.suffix-wrong-error",
                                format!("{} rejected message+suffix with {} instead of ExtraneousData (fault {})", ep.name, err_class(e), f.step(ep.name).summary()),
                            )
                            .narrowed(cx.narrowed(f, ep.name)),
                        ));
                    }
                    (Err(_), _) => {}
                }
                if let Some(v) = layer_v {
                    return Ok(Some(v));
                }
            }
        }
        Ok(None)
    }
    fn finding_key(&self, t: &Trace, invariant: &str) -> String {
        let f = t.steps.iter().find(|s| s.kind == "fault");
        format!(
            "{}:{}:{}:{}",
            invariant,
            t.meta("type").unwrap_or("?"),
            f.map(|s| s.name.as_str()).unwrap_or("-"),
            f.and_then(|s| s.sym(0).ok()).unwrap_or("-")
        )
    }
}
