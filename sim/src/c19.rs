//! C19 - builders apply exactly the documented effect of each call, in any order.
//! Seeded histories of builder calls are executed against the real builders and against the
//! field-map reference model (Appendix A of DESIGN.md); every public field of the built value is
//! compared with the model.  There is no fault dimension (see DESIGN.md section 5.5).

use crate::common::*;
use crate::engine::*;
use crate::model::*;
use crate::palette::*;
use crate::refcbor;
use crate::rng::Rng;
use crate::trace::*;
use crate::util::Hasher64;
use coset::iana::{self, EnumI64};
use coset::CborSerializable;

pub struct C19;

pub const BUILDERS: &[&str] = &[
    "Header",
    "CoseSignature",
    "CoseSign",
    "CoseSign1",
    "CoseMac",
    "CoseMac0",
    "CoseEncrypt",
    "CoseEncrypt0",
    "CoseRecipient",
    "CoseKey",
    "ClaimsSet",
    "PartyInfo",
    "SuppPubInfo",
    "CoseKdfContext",
];

#[derive(Clone, Copy, PartialEq, Debug)]
enum Pred {
    Accept,
    Refuse,
    Either,
}

type Ap<B> = Box<dyn FnOnce(B) -> Result<B, String>>;

fn ok<B: 'static>(f: impl FnOnce(B) -> B + 'static) -> Ap<B> {
    Box::new(move |b| Ok(f(b)))
}

fn viol<T>(inv: impl Into<String>, detail: impl Into<String>) -> HResult<Result<T, Violation>> {
    Ok(Err(Violation::new(inv, detail)))
}

/// Apply one call to the real builder under catch_unwind and reconcile with the prediction.
/// Ok(Ok(Some(b))): continue; Ok(Ok(None)): history ended legitimately; Ok(Err(v)): violation.
fn apply<B>(
    b: B,
    ap: Ap<B>,
    pred: Pred,
    expect_err: Option<&str>,
    step: &Step,
    idx: usize,
) -> Result<Option<B>, Violation> {
    match guarded(move || ap(b)) {
        Ok(Ok(nb)) => {
            if pred == Pred::Refuse {
                return Err(Violation::new(
                    "C19.refusal",
                    format!(
                        "step {} `{}`: call was accepted but its documentation says it is refused",
                        idx,
                        step.summary()
                    ),
                ));
            }
            if expect_err.is_some() {
                return Err(Violation::new(
                    "C19.try-error",
                    format!(
                        "step {} `{}`: creator failed but the fallible helper returned Ok",
                        idx,
                        step.summary()
                    ),
                ));
            }
            Ok(Some(nb))
        }
        Ok(Err(e)) => {
            // fallible helper returned an error: must be exactly the stub's error
            match expect_err {
                Some(x) if x == e => Ok(None),
                _ => Err(Violation::new(
                    "C19.try-error",
                    format!(
                        "step {} `{}`: fallible helper returned error {:?}, expected {:?}",
                        idx,
                        step.summary(),
                        e,
                        expect_err
                    ),
                )),
            }
        }
        Err(msg) => {
            if pred == Pred::Accept {
                Err(Violation::new(
                    "C19.refusal",
                    format!("step {} `{}`: call panicked ({}) but its documentation says it appends/sets", idx, step.summary(), msg),
                ))
            } else {
                Ok(None)
            }
        }
    }
}

macro_rules! cmp_field {
    ($name:expr, $want:expr, $got:expr) => {
        if $want != $got {
            return Ok(Some(Violation::new(
                format!("C19.field({})", $name),
                format!(
                    "model {:?} != built {:?}",
                    short(&format!("{:?}", $want)),
                    short(&format!("{:?}", $got))
                ),
            )));
        }
    };
}

fn short(s: &str) -> String {
    if s.len() <= 300 {
        s.to_string()
    } else {
        let mut e = 300;
        while !s.is_char_boundary(e) {
            e -= 1;
        }
        format!("{}...(len {})", &s[..e], s.len())
    }
}

/// Second observation channel: the built value and the value assembled from the model through
/// struct literals must encode alike (both fail, or both give the same bytes).  Both sides are
/// coset's encoder, so this says nothing about the encoding itself - only that the builder did not
/// leave state behind that the public fields do not show.
fn enc_obs<T: CborSerializable>(built: T, from_model: T) -> Option<Violation> {
    let a = guarded(move || built.to_vec());
    let b = guarded(move || from_model.to_vec());
    match (a, b) {
        (Ok(Ok(x)), Ok(Ok(y))) => {
            if x != y {
                Some(Violation::new(
                    "C19.hidden-state",
                    format!("all public fields equal the model, but the built value encodes as {} and the same value from struct literals as {}", crate::util::hex_short(&x), crate::util::hex_short(&y)),
                ))
            } else {
                None
            }
        }
        (Ok(Err(_)), Ok(Err(_))) => None,
        (Err(_), Err(_)) => None,
        (a, b) => Some(Violation::new(
            "C19.hidden-state",
            format!("all public fields equal the model, but encoding differs in outcome: built {:?}, from struct literals {:?}", a.map(|r| r.is_ok()), b.map(|r| r.is_ok())),
        )),
    }
}

fn cmp_protected(name: &str, want: &MProtected, got: &MProtected) -> Option<Violation> {
    if got.original.is_some() && want.original.is_none() {
        return Some(Violation::new(
            "C19.wire-bytes-kept",
            format!(
                "{}: built value retains wire bytes {:?}",
                name,
                got.original.as_ref().map(|b| crate::util::hex_short(b))
            ),
        ));
    }
    if want != got {
        return Some(Violation::new(
            format!("C19.field({})", name),
            format!(
                "model {} != built {}",
                short(&format!("{:?}", want)),
                short(&format!("{:?}", got))
            ),
        ));
    }
    None
}

fn cmp_header(prefix: &str, want: &MHeader, got: &MHeader) -> Option<Violation> {
    macro_rules! f {
        ($f:ident) => {
            if want.$f != got.$f {
                return Some(Violation::new(
                    format!("C19.field({}{})", prefix, stringify!($f)),
                    format!(
                        "model {} != built {}",
                        short(&format!("{:?}", want.$f)),
                        short(&format!("{:?}", got.$f))
                    ),
                ));
            }
        };
    }
    f!(alg);
    f!(crit);
    f!(content_type);
    f!(key_id);
    f!(iv);
    f!(partial_iv);
    f!(counter_signatures);
    f!(rest);
    None
}

// ------------------------------------------------------------------------------------------
// generation
// ------------------------------------------------------------------------------------------

use crate::palette::{
    all_algs, all_claim_names, all_content_formats, all_curves, all_header_params, all_key_ops,
    all_key_types,
};

/// Byte strings that look like real key material: SEC1 elliptic-curve points (uncompressed
/// 04||X||Y, compressed 02/03||X) for the usual field sizes, DER prefixes, all-zero and all-ff
/// coordinates.
fn key_material(rng: &mut Rng) -> Vec<u8> {
    let n = *rng.pick(&[32usize, 48, 66, 28, 57]);
    match rng.below(8) {
        6 => {
            // a field element as a big-integer library emits it: one sign octet 00 in front of a
            // value whose top bit is set
            let mut v = vec![0x00, 0x80 | (rng.next_u64() as u8)];
            v.extend(pat(n - 1, 35));
            v
        }
        7 => {
            // a field element with a leading zero stripped (one octet short)
            pat(n - 1, 36)
        }
        0 => {
            let mut v = vec![0x04];
            v.extend(pat(2 * n, 31));
            v
        }
        1 => {
            let mut v = vec![if rng.bool() { 0x02 } else { 0x03 }];
            v.extend(pat(n, 32));
            v
        }
        2 => vec![0u8; n],
        3 => vec![0xff; n],
        4 => {
            let mut v = vec![0x30, 0x82, 0x01, 0x0a];
            v.extend(pat(n, 33));
            v
        }
        _ => pat(n, 34),
    }
}

fn a_bytes(rng: &mut Rng) -> Arg {
    if rng.chance(1, 12) {
        return Arg::B(key_material(rng));
    }
    if rng.chance(1, 8) {
        // any length, in particular the usual key / coordinate / nonce sizes
        let n = match rng.below(3) {
            0 => *rng.pick(&[8usize, 12, 16, 20, 28, 32, 48, 56, 57, 64, 65, 66, 128, 132]),
            _ => rng.log_uniform(1, 5000) as usize,
        };
        // patterned or random content
        return Arg::B(if rng.bool() { pat(n, 21) } else { rng.bytes(n) });
    }
    Arg::B(bytes_palette()[pick_bytes_idx(rng)].clone())
}
fn a_label(rng: &mut Rng) -> Arg {
    match rng.below(4) {
        0 => Arg::I(rng.range(0, 70) as i128 - 10),
        1 => Arg::I((rng.next_u64() as i64 >> rng.below(56)) as i128),
        _ => Arg::I(*rng.pick(LABELS) as i128),
    }
}
fn a_reg(rng: &mut Rng, pal: &[i64], all: &[i64]) -> Arg {
    if rng.chance(1, 3) && !all.is_empty() {
        Arg::I(*rng.pick(all) as i128)
    } else {
        Arg::I(*rng.pick(pal) as i128)
    }
}
fn a_small(rng: &mut Rng) -> Arg {
    Arg::B(bytes_palette()[pick_small_bytes_idx(rng)].clone())
}
fn a_text(rng: &mut Rng) -> Arg {
    if rng.chance(1, 4) {
        return Arg::T(crate::traffic::gen_text(
            rng,
            &crate::traffic::GenCfg::small(),
        ));
    }
    Arg::T(text_palette()[pick_text_idx(rng)].clone())
}
fn a_i64(rng: &mut Rng, pal: &[i64]) -> Arg {
    if rng.chance(1, 3) {
        Arg::I((rng.next_u64() as i64 >> rng.below(64)) as i128)
    } else {
        Arg::I(*rng.pick(pal) as i128)
    }
}
fn a_hdr(rng: &mut Rng) -> Arg {
    gen_header_arg(rng)
}
fn a_val(rng: &mut Rng) -> Arg {
    if rng.chance(1, 3) {
        // arbitrary shape, carried in the trace as its CBOR encoding
        let v = gen_any_value(rng, 0);
        return Arg::B(crate::refcbor::encode(&v.to_item()));
    }
    Arg::I(rng.below(value_palette().len()) as i128)
}
/// label and value of an extension entry: independent draws, or (1 in 5) a registered label with
/// one of the value shapes registered entries take
fn a_pair(rng: &mut Rng, kind: u8) -> Vec<Arg> {
    if rng.chance(1, 5) {
        let (l, v) = crate::common::gen_registered_pair(rng, kind);
        return vec![Arg::I(l), Arg::B(crate::refcbor::encode(&v.to_item()))];
    }
    vec![a_label(rng), a_val(rng)]
}
fn a_from(rng: &mut Rng, xs: &[i64]) -> Arg {
    Arg::I(*rng.pick(xs) as i128)
}
fn a_tok(rng: &mut Rng) -> Arg {
    // what the caller's function returns: short markers, and values of the usual signature / tag /
    // ciphertext sizes
    let mut t = format!("TOK#{}", rng.below(1000)).into_bytes();
    if rng.chance(1, 8) {
        return Arg::B(crate::common::der_ecdsa_sig(
            &t,
            *rng.pick(&[32usize, 48, 66]),
        ));
    }
    if rng.bool() {
        let n = *rng.pick(&[8usize, 12, 16, 24, 32, 48, 64, 66, 96, 128, 132, 256, 512]);
        while t.len() < n {
            t.push((t.len() as u8).wrapping_mul(37));
        }
        t.truncate(n);
    }
    Arg::B(t)
}
fn a_fail(rng: &mut Rng) -> Arg {
    // 0 = creator succeeds, 1 = creator fails
    Arg::I(if rng.chance(1, 5) { 1 } else { 0 })
}

fn gen_op(builder: &str, rng: &mut Rng) -> Step {
    let o = Step::op;
    match builder {
        "Header" => match rng.below(11) {
            0 => o("key_id", vec![a_bytes(rng)]),
            1 => o("algorithm", vec![a_reg(rng, ALGS, all_algs())]),
            2 => o(
                "add_critical",
                vec![a_reg(rng, HEADER_PARAMS, all_header_params())],
            ),
            3 => {
                if rng.bool() {
                    o(
                        "add_critical_label",
                        vec![
                            Arg::S("int".into()),
                            a_reg(rng, HEADER_PARAMS, all_header_params()),
                        ],
                    )
                } else {
                    o(
                        "add_critical_label",
                        vec![Arg::S("text".into()), a_text(rng)],
                    )
                }
            }
            4 => o(
                "content_format",
                vec![a_reg(rng, CONTENT_FORMATS, all_content_formats())],
            ),
            5 => o("content_type", vec![a_text(rng)]),
            6 => o(
                "iv",
                vec![if rng.chance(1, 6) {
                    a_bytes(rng)
                } else {
                    a_small(rng)
                }],
            ),
            7 => o(
                "partial_iv",
                vec![if rng.chance(1, 6) {
                    a_bytes(rng)
                } else {
                    a_small(rng)
                }],
            ),
            8 => o("add_counter_signature", gen_sig_args(rng)),
            9 => o("value", a_pair(rng, 0)),
            _ => o("text_value", vec![a_text(rng), a_val(rng)]),
        },
        "CoseSignature" => match rng.below(3) {
            0 => o("protected", vec![a_hdr(rng)]),
            1 => o("unprotected", vec![a_hdr(rng)]),
            _ => o("signature", vec![a_bytes(rng)]),
        },
        "CoseSign" => match rng.below(8) {
            0 => o("protected", vec![a_hdr(rng)]),
            1 => o("unprotected", vec![a_hdr(rng)]),
            2 => o("payload", vec![a_bytes(rng)]),
            3 => o("add_signature", gen_sig_args(rng)),
            4 => {
                let mut a = gen_sig_args(rng);
                a.extend([a_small(rng), a_tok(rng)]);
                o("add_created_signature", a)
            }
            5 => {
                let mut a = gen_sig_args(rng);
                a.extend([a_small(rng), a_small(rng), a_tok(rng)]);
                o("add_detached_signature", a)
            }
            6 => {
                let mut a = gen_sig_args(rng);
                a.extend([a_small(rng), a_tok(rng), a_fail(rng)]);
                o("try_add_created_signature", a)
            }
            _ => {
                let mut a = gen_sig_args(rng);
                a.extend([a_small(rng), a_small(rng), a_tok(rng), a_fail(rng)]);
                o("try_add_detached_signature", a)
            }
        },
        "CoseSign1" => match rng.below(8) {
            0 => o("protected", vec![a_hdr(rng)]),
            1 => o("unprotected", vec![a_hdr(rng)]),
            2 => o("signature", vec![a_bytes(rng)]),
            3 => o("payload", vec![a_bytes(rng)]),
            4 => o("create_signature", vec![a_small(rng), a_tok(rng)]),
            5 => o(
                "create_detached_signature",
                vec![a_small(rng), a_small(rng), a_tok(rng)],
            ),
            6 => o(
                "try_create_signature",
                vec![a_small(rng), a_tok(rng), a_fail(rng)],
            ),
            _ => o(
                "try_create_detached_signature",
                vec![a_small(rng), a_small(rng), a_tok(rng), a_fail(rng)],
            ),
        },
        "CoseMac" | "CoseMac0" => {
            let n = if builder == "CoseMac" { 7 } else { 6 };
            match rng.below(n) {
                0 => o("protected", vec![a_hdr(rng)]),
                1 => o("unprotected", vec![a_hdr(rng)]),
                2 => o("tag", vec![a_bytes(rng)]),
                3 => o("payload", vec![a_bytes(rng)]),
                4 => o("create_tag", vec![a_small(rng), a_tok(rng)]),
                5 => o(
                    "try_create_tag",
                    vec![a_small(rng), a_tok(rng), a_fail(rng)],
                ),
                _ => o("add_recipient", gen_recipient_args(rng)),
            }
        }
        "CoseEncrypt" | "CoseEncrypt0" => {
            let n = if builder == "CoseEncrypt" { 6 } else { 5 };
            match rng.below(n) {
                0 => o("protected", vec![a_hdr(rng)]),
                1 => o("unprotected", vec![a_hdr(rng)]),
                2 => o("ciphertext", vec![a_bytes(rng)]),
                3 => o(
                    "create_ciphertext",
                    vec![a_small(rng), a_small(rng), a_tok(rng)],
                ),
                4 => o(
                    "try_create_ciphertext",
                    vec![a_small(rng), a_small(rng), a_tok(rng), a_fail(rng)],
                ),
                _ => o("add_recipient", gen_recipient_args(rng)),
            }
        }
        "CoseRecipient" => match rng.below(6) {
            0 => o("protected", vec![a_hdr(rng)]),
            1 => o("unprotected", vec![a_hdr(rng)]),
            2 => o("ciphertext", vec![a_bytes(rng)]),
            3 => o("add_recipient", gen_recipient_args(rng)),
            4 => {
                // mostly recipient contexts; sometimes a non-recipient one (documented refusal)
                let c = if rng.chance(1, 6) {
                    rng.below(2)
                } else {
                    2 + rng.below(3)
                };
                o(
                    "create_ciphertext",
                    vec![
                        Arg::S(ctx_name(c).into()),
                        a_small(rng),
                        a_small(rng),
                        a_tok(rng),
                    ],
                )
            }
            _ => {
                let c = if rng.chance(1, 6) {
                    rng.below(2)
                } else {
                    2 + rng.below(3)
                };
                o(
                    "try_create_ciphertext",
                    vec![
                        Arg::S(ctx_name(c).into()),
                        a_small(rng),
                        a_small(rng),
                        a_tok(rng),
                        a_fail(rng),
                    ],
                )
            }
        },
        "CoseKey" => match rng.below(7) {
            0 => {
                if rng.bool() {
                    o(
                        "kty",
                        vec![Arg::S("int".into()), a_reg(rng, KEY_TYPES, all_key_types())],
                    )
                } else {
                    o("kty", vec![Arg::S("text".into()), a_text(rng)])
                }
            }
            1 => o("key_type", vec![a_reg(rng, KEY_TYPES, all_key_types())]),
            2 => o("key_id", vec![a_bytes(rng)]),
            3 => o("base_iv", vec![a_small(rng)]),
            4 => o("algorithm", vec![a_reg(rng, ALGS, all_algs())]),
            5 => o("add_key_op", vec![a_reg(rng, KEY_OPS, all_key_ops())]),
            _ => o("param", a_pair(rng, 1)),
        },
        "ClaimsSet" => match rng.below(10) {
            0 => o("issuer", vec![a_text(rng)]),
            1 => o("subject", vec![a_text(rng)]),
            2 => o("audience", vec![a_text(rng)]),
            3 => o("expiration_time", gen_ts(rng)),
            4 => o("not_before", gen_ts(rng)),
            5 => o("issued_at", gen_ts(rng)),
            6 => o("cwt_id", vec![a_bytes(rng)]),
            7 => o("claim", {
                let mut p = a_pair(rng, 2);
                if let Arg::I(l) = p[0] {
                    if crate::palette::all_claim_names().contains(&(l as i64)) && rng.bool() {
                        p
                    } else {
                        p[0] = a_reg(rng, CLAIM_NAMES, all_claim_names());
                        p
                    }
                } else {
                    p
                }
            }),
            8 => o("text_claim", vec![a_text(rng), a_val(rng)]),
            _ => o(
                "private_claim",
                vec![
                    if rng.chance(1, 3) {
                        Arg::I(-65530 - rng.below(20) as i128)
                    } else {
                        a_from(rng, PRIVATE_IDS)
                    },
                    a_val(rng),
                ],
            ),
        },
        "PartyInfo" => match rng.below(3) {
            0 => o("identity", vec![a_bytes(rng)]),
            1 => {
                if rng.bool() {
                    o("nonce", vec![Arg::S("bytes".into()), a_small(rng)])
                } else {
                    o("nonce", vec![Arg::S("int".into()), a_i64(rng, NONCE_INTS)])
                }
            }
            _ => o("other", vec![a_bytes(rng)]),
        },
        "SuppPubInfo" => match rng.below(3) {
            0 => o(
                "key_data_length",
                vec![if rng.chance(1, 3) {
                    Arg::I((rng.next_u64() >> rng.below(64)) as i128)
                } else {
                    Arg::I(*rng.pick(KEY_DATA_LENGTHS) as i128)
                }],
            ),
            1 => o("protected", vec![a_hdr(rng)]),
            _ => o("other", vec![a_bytes(rng)]),
        },
        "CoseKdfContext" => match rng.below(5) {
            0 => o("party_u_info", vec![a_party(rng)]),
            1 => o("party_v_info", vec![a_party(rng)]),
            2 => o("supp_pub_info", vec![a_supp(rng)]),
            3 => o("algorithm", vec![a_reg(rng, ALGS, all_algs())]),
            _ => o("add_supp_priv_info", vec![a_small(rng)]),
        },
        _ => unreachable!(),
    }
}

/// Party / supplementary info arguments: palette index, or a seeded value carried as CBOR.
fn a_party(rng: &mut Rng) -> Arg {
    if rng.bool() {
        let p = crate::traffic::gen_party(rng, &crate::traffic::GenCfg::small());
        let b = refcbor::encode(&p.to_item());
        if refcbor::read_exact(&b)
            .ok()
            .and_then(|i| MPartyInfo::from_item(&i))
            .as_ref()
            == Some(&p)
        {
            return Arg::B(b);
        }
    }
    Arg::I(rng.below(party_palette().len()) as i128)
}
fn a_supp(rng: &mut Rng) -> Arg {
    if rng.bool() {
        let p = crate::traffic::gen_supp(rng, &crate::traffic::GenCfg::small());
        let b = refcbor::encode(&p.to_item());
        if refcbor::read_exact(&b)
            .ok()
            .and_then(|i| MSuppPubInfo::from_item(&i))
            .as_ref()
            == Some(&p)
        {
            return Arg::B(b);
        }
    }
    Arg::I(rng.below(supp_pub_palette().len()) as i128)
}
fn party_from(s: &Step, parties: &[MPartyInfo]) -> HResult<MPartyInfo> {
    match s.args.first() {
        Some(Arg::B(b)) => refcbor::read_exact(b)
            .ok()
            .and_then(|i| MPartyInfo::from_item(&i))
            .ok_or_else(|| HarnessError("party argument".into())),
        _ => parties
            .get(s.usize(0)?)
            .cloned()
            .ok_or_else(|| HarnessError("party index".into())),
    }
}
fn supp_from(s: &Step, supps: &[MSuppPubInfo]) -> HResult<MSuppPubInfo> {
    match s.args.first() {
        Some(Arg::B(b)) => refcbor::read_exact(b)
            .ok()
            .and_then(|i| MSuppPubInfo::from_item(&i))
            .ok_or_else(|| HarnessError("supp argument".into())),
        _ => supps
            .get(s.usize(0)?)
            .cloned()
            .ok_or_else(|| HarnessError("supp index".into())),
    }
}

fn gen_ts(rng: &mut Rng) -> Vec<Arg> {
    if rng.chance(2, 3) {
        vec![Arg::S("whole".into()), a_i64(rng, TIMESTAMPS_WHOLE)]
    } else if rng.chance(1, 3) {
        // any bit pattern, including NaN, infinities and subnormals
        vec![Arg::S("frac".into()), Arg::I(float_bits(rng) as i128)]
    } else {
        vec![
            Arg::S("frac".into()),
            Arg::I(rng.pick(TIMESTAMPS_FRAC).to_bits() as i128),
        ]
    }
}

fn ts_from(step: &Step) -> HResult<MTimestamp> {
    match step.sym(0)? {
        "whole" => Ok(MTimestamp::Whole(step.i64(1)?)),
        "frac" => Ok(MTimestamp::Frac(step.u64(1)?)),
        x => herr(format!("bad timestamp kind {}", x)),
    }
}

fn gen_ctor(builder: &str, rng: &mut Rng) -> Step {
    let c = |n: &str, a: Vec<Arg>| Step::new("ctor", n, a);
    if builder == "CoseKey" {
        match rng.below(7) {
            0 => c("new", vec![]),
            1 => c("default", vec![]),
            2 => c(
                "new_ec2_pub_key",
                vec![
                    a_reg(rng, CURVES, all_curves()),
                    if rng.chance(1, 4) {
                        Arg::B(key_material(rng))
                    } else {
                        a_bytes(rng)
                    },
                    if rng.chance(1, 4) {
                        Arg::B(vec![])
                    } else {
                        a_bytes(rng)
                    },
                ],
            ),
            3 => c(
                "new_ec2_pub_key_y_sign",
                vec![
                    a_reg(rng, CURVES, all_curves()),
                    a_bytes(rng),
                    Arg::I(rng.below(2) as i128),
                ],
            ),
            4 => c(
                "new_ec2_priv_key",
                vec![
                    a_reg(rng, CURVES, all_curves()),
                    if rng.chance(1, 4) {
                        Arg::B(key_material(rng))
                    } else {
                        a_bytes(rng)
                    },
                    if rng.chance(1, 4) {
                        Arg::B(vec![])
                    } else {
                        a_bytes(rng)
                    },
                    a_bytes(rng),
                ],
            ),
            5 => c("new_symmetric_key", vec![a_bytes(rng)]),
            _ => c("new_okp_key", vec![]),
        }
    } else if rng.chance(1, 4) {
        c("default", vec![])
    } else {
        c("new", vec![])
    }
}

fn curve(i: i64) -> HResult<iana::EllipticCurve> {
    iana::EllipticCurve::from_i64(i)
        .ok_or_else(|| HarnessError(format!("curve {} not in registry", i)))
}

macro_rules! reg_or_herr {
    ($t:ty, $i:expr) => {
        <$t>::from_i64($i)
            .ok_or_else(|| HarnessError(format!("{} {} not in registry", stringify!($t), $i)))
    };
}

// ------------------------------------------------------------------------------------------
// execution
// ------------------------------------------------------------------------------------------

fn tok_err(tok: &[u8]) -> String {
    format!("ERR:{}", String::from_utf8_lossy(tok))
}

/// Drive the generic loop: `$b` real builder, `$steps` the op steps, `$body` maps a step to
/// (prediction, Ap, expected error).  Returns early on violation / legitimate end of history.
macro_rules! drive {
    ($b:ident, $steps:expr, |$s:ident| $body:block) => {
        for (idx, $s) in $steps.iter().enumerate() {
            if $s.kind != "op" {
                continue;
            }
            let (pred, ap, expect_err): (Pred, _, Option<String>) = $body;
            match apply($b, ap, pred, expect_err.as_deref(), $s, idx) {
                Ok(Some(nb)) => $b = nb,
                Ok(None) => return Ok(None),
                Err(v) => return Ok(Some(v)),
            }
        }
    };
}

fn ctor_name(t: &Trace) -> &str {
    t.steps
        .iter()
        .find(|s| s.kind == "ctor")
        .map(|s| s.name.as_str())
        .unwrap_or("new")
}

fn exec_header(t: &Trace) -> HResult<Option<Violation>> {
    let mut b = if ctor_name(t) == "default" {
        coset::HeaderBuilder::default()
    } else {
        coset::HeaderBuilder::new()
    };
    let mut m = MHeader::default();
    drive!(b, t.steps, |s| {
        match s.name.as_str() {
            "key_id" => {
                let v = s.bytes(0)?.to_vec();
                m.key_id = v.clone();
                (
                    Pred::Accept,
                    ok(move |b: coset::HeaderBuilder| b.key_id(v)),
                    None,
                )
            }
            "algorithm" => {
                let i = s.i64(0)?;
                let a = reg_or_herr!(iana::Algorithm, i)?;
                m.alg = Some(MRegP::Assigned(i));
                (
                    Pred::Accept,
                    ok(move |b: coset::HeaderBuilder| b.algorithm(a)),
                    None,
                )
            }
            "add_critical" => {
                let i = s.i64(0)?;
                let p = reg_or_herr!(iana::HeaderParameter, i)?;
                m.crit.push(MReg::Assigned(i));
                (
                    Pred::Accept,
                    ok(move |b: coset::HeaderBuilder| b.add_critical(p)),
                    None,
                )
            }
            "add_critical_label" => {
                let (ml, cl) = match s.sym(0)? {
                    "int" => {
                        let i = s.i64(1)?;
                        (
                            MReg::Assigned(i),
                            coset::RegisteredLabel::Assigned(reg_or_herr!(
                                iana::HeaderParameter,
                                i
                            )?),
                        )
                    }
                    _ => {
                        let x = s.text(1)?.to_string();
                        (MReg::Text(x.clone()), coset::RegisteredLabel::Text(x))
                    }
                };
                m.crit.push(ml);
                (
                    Pred::Accept,
                    ok(move |b: coset::HeaderBuilder| b.add_critical_label(cl)),
                    None,
                )
            }
            "content_format" => {
                let i = s.i64(0)?;
                let f = reg_or_herr!(iana::CoapContentFormat, i)?;
                m.content_type = Some(MReg::Assigned(i));
                (
                    Pred::Accept,
                    ok(move |b: coset::HeaderBuilder| b.content_format(f)),
                    None,
                )
            }
            "content_type" => {
                let x = s.text(0)?.to_string();
                m.content_type = Some(MReg::Text(x.clone()));
                (
                    Pred::Accept,
                    ok(move |b: coset::HeaderBuilder| b.content_type(x)),
                    None,
                )
            }
            "iv" => {
                let v = s.bytes(0)?.to_vec();
                m.iv = v.clone();
                m.partial_iv.clear();
                (
                    Pred::Accept,
                    ok(move |b: coset::HeaderBuilder| b.iv(v)),
                    None,
                )
            }
            "partial_iv" => {
                let v = s.bytes(0)?.to_vec();
                m.partial_iv = v.clone();
                m.iv.clear();
                (
                    Pred::Accept,
                    ok(move |b: coset::HeaderBuilder| b.partial_iv(v)),
                    None,
                )
            }
            "add_counter_signature" => {
                let sig = sig_from_args(s, 0)?;
                let cs = sig.to_coset();
                m.counter_signatures.push(sig);
                (
                    Pred::Accept,
                    ok(move |b: coset::HeaderBuilder| b.add_counter_signature(cs)),
                    None,
                )
            }
            "value" => {
                let l = s.i64(0)?;
                let v = value_from_arg(s, 1)?;
                let cv = v.to_value();
                let pred = if (1..=7).contains(&l) {
                    Pred::Refuse
                } else {
                    Pred::Accept
                };
                if pred == Pred::Accept {
                    m.rest.push((MLabel::Int(l), v));
                }
                (
                    pred,
                    ok(move |b: coset::HeaderBuilder| b.value(l, cv)),
                    None,
                )
            }
            "text_value" => {
                let l = s.text(0)?.to_string();
                let v = value_from_arg(s, 1)?;
                let cv = v.to_value();
                m.rest.push((MLabel::Text(l.clone()), v));
                (
                    Pred::Accept,
                    ok(move |b: coset::HeaderBuilder| b.text_value(l, cv)),
                    None,
                )
            }
            x => return herr(format!("Header: unknown op {}", x)),
        }
    });
    let built = b.build();
    let got = MHeader::from_coset(&built);
    if !got.iv.is_empty() && !got.partial_iv.is_empty() {
        return Ok(Some(Violation::new(
            "C19.iv-both",
            format!("iv={:?} partial_iv={:?}", got.iv, got.partial_iv),
        )));
    }
    if let Some(v) = cmp_header("", &m, &got) {
        return Ok(Some(v));
    }
    // documented on the extra-parameter field and the adder calls: if a label was added twice,
    // CBOR-encoding fails
    {
        let labels: Vec<&MLabel> = m.rest.iter().map(|(l, _)| l).collect();
        let mut dup = false;
        for i in 0..labels.len() {
            for j in (i + 1)..labels.len() {
                if labels[i] == labels[j] {
                    dup = true;
                }
            }
        }
        let enc = guarded(|| built.clone().to_vec());
        match (dup, enc) {
            (true, Ok(Ok(bytes))) => {
                return Ok(Some(Violation::new(
                    "C19.duplicate-encodes",
                    format!("the header holds the same extra label twice, which is documented to make CBOR-encoding fail, but it encodes as {}", crate::util::hex_short(&bytes)),
                )))
            }
            (false, Ok(Err(e))) => {
                return Ok(Some(Violation::new(
                    "C19.duplicate-encodes",
                    format!("the header holds no repeated extra label but does not encode: {:?}", e),
                )))
            }
            _ => {}
        }
    }
    Ok(enc_obs(built, m.to_coset()))
}

fn exec_signature(t: &Trace) -> HResult<Option<Violation>> {
    let mut b = if ctor_name(t) == "default" {
        coset::CoseSignatureBuilder::default()
    } else {
        coset::CoseSignatureBuilder::new()
    };
    let mut m = MSignature::default();
    drive!(b, t.steps, |s| {
        match s.name.as_str() {
            "protected" => {
                let h = header_from_arg(s, 0)?;
                let ch = h.to_coset();
                m.protected = MProtected::built(h);
                (
                    Pred::Accept,
                    ok(move |b: coset::CoseSignatureBuilder| b.protected(ch)),
                    None,
                )
            }
            "unprotected" => {
                let h = header_from_arg(s, 0)?;
                let ch = h.to_coset();
                m.unprotected = h;
                (
                    Pred::Accept,
                    ok(move |b: coset::CoseSignatureBuilder| b.unprotected(ch)),
                    None,
                )
            }
            "signature" => {
                let v = s.bytes(0)?.to_vec();
                m.signature = v.clone();
                (
                    Pred::Accept,
                    ok(move |b: coset::CoseSignatureBuilder| b.signature(v)),
                    None,
                )
            }
            x => return herr(format!("CoseSignature: unknown op {}", x)),
        }
    });
    let built = b.build();
    let got = MSignature::from_coset(&built);
    if let Some(v) = cmp_protected("protected", &m.protected, &got.protected) {
        return Ok(Some(v));
    }
    if let Some(v) = cmp_header("unprotected.", &m.unprotected, &got.unprotected) {
        return Ok(Some(v));
    }
    cmp_field!("signature", m.signature, got.signature);
    Ok(enc_obs(built, m.to_coset()))
}

/// What a stub creator function returns: the planned token, bound (three times in four) to the
/// bytes the function was handed, so that the built value shows WHAT was signed / MACed /
/// encrypted: long tokens keep their size (digest folded into the tail), short ones grow by it.
fn bind(tok: &[u8], handed: &[u8]) -> Vec<u8> {
    // (a creator function may well use the library itself while it runs)
    crate::common::layered_use();
    let mut out = tok.to_vec();
    if crate::util::hash_bytes(tok) % 4 == 0 {
        return out;
    }
    let d = crate::util::hash_bytes(handed).to_be_bytes();
    if out.len() >= 16 {
        let n = out.len();
        for (i, x) in d.iter().enumerate() {
            out[n - 8 + i] ^= x;
        }
    } else {
        out.extend(d);
    }
    out
}
fn bind2(tok: &[u8], plaintext: &[u8], aad: &[u8]) -> Vec<u8> {
    let mut h = Vec::with_capacity(plaintext.len() + aad.len() + 8);
    h.extend((plaintext.len() as u64).to_be_bytes());
    h.extend(plaintext);
    h.extend(aad);
    bind(tok, &h)
}
fn ctx_text(name: &str) -> &'static str {
    match name {
        "Encrypt" => "Encrypt",
        "Encrypt0" => "Encrypt0",
        "EncRecipient" => "Enc_Recipient",
        "MacRecipient" => "Mac_Recipient",
        _ => "Rec_Recipient",
    }
}

/// Common protected/unprotected setters for message builders.
macro_rules! hdr_ops {
    ($s:ident, $m:ident, $bt:ty) => {
        match $s.name.as_str() {
            "protected" => {
                let h = header_from_arg($s, 0)?;
                let ch = h.to_coset();
                $m.protected = MProtected::built(h);
                Some((Pred::Accept, ok(move |b: $bt| b.protected(ch)), None))
            }
            "unprotected" => {
                let h = header_from_arg($s, 0)?;
                let ch = h.to_coset();
                $m.unprotected = h;
                Some((Pred::Accept, ok(move |b: $bt| b.unprotected(ch)), None))
            }
            _ => None,
        }
    };
}

fn exec_sign(t: &Trace) -> HResult<Option<Violation>> {
    type B = coset::CoseSignBuilder;
    let mut b = if ctor_name(t) == "default" {
        B::default()
    } else {
        B::new()
    };
    let mut m = MSign::default();
    drive!(b, t.steps, |s| {
        if let Some(x) = hdr_ops!(s, m, B) {
            x
        } else {
            match s.name.as_str() {
                "payload" => {
                    let v = s.bytes(0)?.to_vec();
                    m.payload = Some(v.clone());
                    (Pred::Accept, ok(move |b: B| b.payload(v)), None)
                }
                "add_signature" => {
                    let sig = sig_from_args(s, 0)?;
                    let cs = sig.to_coset();
                    m.signatures.push(sig);
                    (Pred::Accept, ok(move |b: B| b.add_signature(cs)), None)
                }
                "add_created_signature" => {
                    let mut sig = sig_from_args(s, 0)?;
                    let cs = sig.to_coset();
                    let aad = s.bytes(3)?.to_vec();
                    let tok = s.bytes(4)?.to_vec();
                    sig.signature = bind(
                        &tok,
                        &ref_sig_structure(
                            "Signature",
                            &m.protected,
                            Some(&sig.protected),
                            &aad,
                            m.payload.as_deref().unwrap_or(&[]),
                        ),
                    );
                    m.signatures.push(sig);
                    (
                        Pred::Accept,
                        ok(move |b: B| b.add_created_signature(cs, &aad, |d| bind(&tok, d))),
                        None,
                    )
                }
                "add_detached_signature" => {
                    let mut sig = sig_from_args(s, 0)?;
                    let cs = sig.to_coset();
                    let pl = s.bytes(3)?.to_vec();
                    let aad = s.bytes(4)?.to_vec();
                    let tok = s.bytes(5)?.to_vec();
                    let pred = if m.payload.is_some() {
                        Pred::Refuse
                    } else {
                        Pred::Accept
                    };
                    if pred == Pred::Accept {
                        sig.signature = bind(
                            &tok,
                            &ref_sig_structure(
                                "Signature",
                                &m.protected,
                                Some(&sig.protected),
                                &aad,
                                &pl,
                            ),
                        );
                        m.signatures.push(sig);
                    }
                    (
                        pred,
                        ok(move |b: B| b.add_detached_signature(cs, &pl, &aad, |d| bind(&tok, d))),
                        None,
                    )
                }
                "try_add_created_signature" => {
                    let mut sig = sig_from_args(s, 0)?;
                    let cs = sig.to_coset();
                    let aad = s.bytes(3)?.to_vec();
                    let tok = s.bytes(4)?.to_vec();
                    let fail = s.int(5)? == 1;
                    let e = tok_err(&tok);
                    if !fail {
                        sig.signature = bind(
                            &tok,
                            &ref_sig_structure(
                                "Signature",
                                &m.protected,
                                Some(&sig.protected),
                                &aad,
                                m.payload.as_deref().unwrap_or(&[]),
                            ),
                        );
                        m.signatures.push(sig);
                    }
                    let e2 = e.clone();
                    let ap: Ap<B> = Box::new(move |b: B| {
                        b.try_add_created_signature(cs, &aad, |d| {
                            if fail {
                                Err(e2)
                            } else {
                                Ok(bind(&tok, d))
                            }
                        })
                    });
                    (Pred::Accept, ap, if fail { Some(e) } else { None })
                }
                "try_add_detached_signature" => {
                    let mut sig = sig_from_args(s, 0)?;
                    let cs = sig.to_coset();
                    let pl = s.bytes(3)?.to_vec();
                    let aad = s.bytes(4)?.to_vec();
                    let tok = s.bytes(5)?.to_vec();
                    let fail = s.int(6)? == 1;
                    let e = tok_err(&tok);
                    let pred = if m.payload.is_some() {
                        Pred::Refuse
                    } else {
                        Pred::Accept
                    };
                    if pred == Pred::Accept && !fail {
                        sig.signature = bind(
                            &tok,
                            &ref_sig_structure(
                                "Signature",
                                &m.protected,
                                Some(&sig.protected),
                                &aad,
                                &pl,
                            ),
                        );
                        m.signatures.push(sig);
                    }
                    let e2 = e.clone();
                    let ap: Ap<B> = Box::new(move |b: B| {
                        b.try_add_detached_signature(cs, &pl, &aad, |d| {
                            if fail {
                                Err(e2)
                            } else {
                                Ok(bind(&tok, d))
                            }
                        })
                    });
                    (
                        pred,
                        ap,
                        if fail && pred == Pred::Accept {
                            Some(e)
                        } else {
                            None
                        },
                    )
                }
                x => return herr(format!("CoseSign: unknown op {}", x)),
            }
        }
    });
    let built = b.build();
    let got = MSign::from_coset(&built);
    if let Some(v) = cmp_protected("protected", &m.protected, &got.protected) {
        return Ok(Some(v));
    }
    if let Some(v) = cmp_header("unprotected.", &m.unprotected, &got.unprotected) {
        return Ok(Some(v));
    }
    cmp_field!("payload", m.payload, got.payload);
    cmp_field!("signatures", m.signatures, got.signatures);
    Ok(enc_obs(built, m.to_coset()))
}

fn exec_sign1(t: &Trace) -> HResult<Option<Violation>> {
    type B = coset::CoseSign1Builder;
    let mut b = if ctor_name(t) == "default" {
        B::default()
    } else {
        B::new()
    };
    let mut m = MSign1::default();
    drive!(b, t.steps, |s| {
        if let Some(x) = hdr_ops!(s, m, B) {
            x
        } else {
            match s.name.as_str() {
                "payload" => {
                    let v = s.bytes(0)?.to_vec();
                    m.payload = Some(v.clone());
                    (Pred::Accept, ok(move |b: B| b.payload(v)), None)
                }
                "signature" => {
                    let v = s.bytes(0)?.to_vec();
                    m.signature = v.clone();
                    (Pred::Accept, ok(move |b: B| b.signature(v)), None)
                }
                "create_signature" => {
                    let aad = s.bytes(0)?.to_vec();
                    let tok = s.bytes(1)?.to_vec();
                    m.signature = bind(
                        &tok,
                        &ref_sig_structure(
                            "Signature1",
                            &m.protected,
                            None,
                            &aad,
                            m.payload.as_deref().unwrap_or(&[]),
                        ),
                    );
                    (
                        Pred::Accept,
                        ok(move |b: B| b.create_signature(&aad, |d| bind(&tok, d))),
                        None,
                    )
                }
                "create_detached_signature" => {
                    let pl = s.bytes(0)?.to_vec();
                    let aad = s.bytes(1)?.to_vec();
                    let tok = s.bytes(2)?.to_vec();
                    let pred = if m.payload.is_some() {
                        Pred::Refuse
                    } else {
                        Pred::Accept
                    };
                    if pred == Pred::Accept {
                        m.signature = bind(
                            &tok,
                            &ref_sig_structure("Signature1", &m.protected, None, &aad, &pl),
                        );
                    }
                    (
                        pred,
                        ok(move |b: B| b.create_detached_signature(&pl, &aad, |d| bind(&tok, d))),
                        None,
                    )
                }
                "try_create_signature" => {
                    let aad = s.bytes(0)?.to_vec();
                    let tok = s.bytes(1)?.to_vec();
                    let fail = s.int(2)? == 1;
                    let e = tok_err(&tok);
                    if !fail {
                        m.signature = bind(
                            &tok,
                            &ref_sig_structure(
                                "Signature1",
                                &m.protected,
                                None,
                                &aad,
                                m.payload.as_deref().unwrap_or(&[]),
                            ),
                        );
                    }
                    let e2 = e.clone();
                    let ap: Ap<B> = Box::new(move |b: B| {
                        b.try_create_signature(
                            &aad,
                            |d| if fail { Err(e2) } else { Ok(bind(&tok, d)) },
                        )
                    });
                    (Pred::Accept, ap, if fail { Some(e) } else { None })
                }
                "try_create_detached_signature" => {
                    let pl = s.bytes(0)?.to_vec();
                    let aad = s.bytes(1)?.to_vec();
                    let tok = s.bytes(2)?.to_vec();
                    let fail = s.int(3)? == 1;
                    let e = tok_err(&tok);
                    let pred = if m.payload.is_some() {
                        Pred::Refuse
                    } else {
                        Pred::Accept
                    };
                    if pred == Pred::Accept && !fail {
                        m.signature = bind(
                            &tok,
                            &ref_sig_structure("Signature1", &m.protected, None, &aad, &pl),
                        );
                    }
                    let e2 = e.clone();
                    let ap: Ap<B> = Box::new(move |b: B| {
                        b.try_create_detached_signature(&pl, &aad, |d| {
                            if fail {
                                Err(e2)
                            } else {
                                Ok(bind(&tok, d))
                            }
                        })
                    });
                    (
                        pred,
                        ap,
                        if fail && pred == Pred::Accept {
                            Some(e)
                        } else {
                            None
                        },
                    )
                }
                x => return herr(format!("CoseSign1: unknown op {}", x)),
            }
        }
    });
    let built = b.build();
    let got = MSign1::from_coset(&built);
    if let Some(v) = cmp_protected("protected", &m.protected, &got.protected) {
        return Ok(Some(v));
    }
    if let Some(v) = cmp_header("unprotected.", &m.unprotected, &got.unprotected) {
        return Ok(Some(v));
    }
    cmp_field!("payload", m.payload, got.payload);
    cmp_field!("signature", m.signature, got.signature);
    Ok(enc_obs(built, m.to_coset()))
}

macro_rules! mac_like {
    ($fname:ident, $bt:ty, $mt:ty, $has_rcpt:expr, $from:expr, $rcpt_push:expr, $rcpt_get:expr, $name:expr) => {
        fn $fname(t: &Trace) -> HResult<Option<Violation>> {
            type B = $bt;
            let mut b = if ctor_name(t) == "default" {
                B::default()
            } else {
                B::new()
            };
            let mut m = <$mt>::default();
            drive!(b, t.steps, |s| {
                if let Some(x) = hdr_ops!(s, m, B) {
                    x
                } else {
                    match s.name.as_str() {
                        "payload" => {
                            let v = s.bytes(0)?.to_vec();
                            m.payload = Some(v.clone());
                            (Pred::Accept, ok(move |b: B| b.payload(v)), None)
                        }
                        "tag" => {
                            let v = s.bytes(0)?.to_vec();
                            m.tag = v.clone();
                            (Pred::Accept, ok(move |b: B| b.tag(v)), None)
                        }
                        "create_tag" => {
                            let aad = s.bytes(0)?.to_vec();
                            let tok = s.bytes(1)?.to_vec();
                            let pred = if m.payload.is_none() {
                                Pred::Refuse
                            } else {
                                Pred::Accept
                            };
                            if pred == Pred::Accept {
                                m.tag = bind(
                                    &tok,
                                    &ref_mac_structure(
                                        if $has_rcpt { "MAC" } else { "MAC0" },
                                        &m.protected,
                                        &aad,
                                        m.payload.as_deref().unwrap_or(&[]),
                                    ),
                                );
                            }
                            (
                                pred,
                                ok(move |b: B| b.create_tag(&aad, |d| bind(&tok, d))),
                                None,
                            )
                        }
                        "try_create_tag" => {
                            let aad = s.bytes(0)?.to_vec();
                            let tok = s.bytes(1)?.to_vec();
                            let fail = s.int(2)? == 1;
                            let e = tok_err(&tok);
                            let pred = if m.payload.is_none() {
                                Pred::Refuse
                            } else {
                                Pred::Accept
                            };
                            if pred == Pred::Accept && !fail {
                                m.tag = bind(
                                    &tok,
                                    &ref_mac_structure(
                                        if $has_rcpt { "MAC" } else { "MAC0" },
                                        &m.protected,
                                        &aad,
                                        m.payload.as_deref().unwrap_or(&[]),
                                    ),
                                );
                            }
                            let e2 = e.clone();
                            let ap: Ap<B> = Box::new(move |b: B| {
                                b.try_create_tag(&aad, |d| {
                                    if fail {
                                        Err(e2)
                                    } else {
                                        Ok(bind(&tok, d))
                                    }
                                })
                            });
                            (
                                pred,
                                ap,
                                if fail && pred == Pred::Accept {
                                    Some(e)
                                } else {
                                    None
                                },
                            )
                        }
                        "add_recipient" if $has_rcpt => {
                            let r = recipient_from_args(s, 0)?;
                            let cr = r.to_coset();
                            #[allow(clippy::redundant_closure_call)]
                            ($rcpt_push)(&mut m, r);
                            #[allow(clippy::redundant_closure_call)]
                            let ap: Ap<B> = ($rcpt_get)(cr);
                            (Pred::Accept, ap, None)
                        }
                        x => return herr(format!("{}: unknown op {}", $name, x)),
                    }
                }
            });
            let built = b.build();
            #[allow(clippy::redundant_closure_call)]
            let got: $mt = ($from)(&built);
            if let Some(v) = cmp_protected("protected", &m.protected, &got.protected) {
                return Ok(Some(v));
            }
            if let Some(v) = cmp_header("unprotected.", &m.unprotected, &got.unprotected) {
                return Ok(Some(v));
            }
            if m != got {
                return Ok(Some(field_diff_mac(
                    &format!("{:?}", m),
                    &format!("{:?}", got),
                    &m.payload,
                    &got.payload,
                    &m.tag,
                    &got.tag,
                )));
            }
            Ok(enc_obs(built, m.to_coset()))
        }
    };
}

fn field_diff_mac(
    m: &str,
    g: &str,
    mp: &Option<Vec<u8>>,
    gp: &Option<Vec<u8>>,
    mt: &[u8],
    gt: &[u8],
) -> Violation {
    let f = if mp != gp {
        "payload"
    } else if mt != gt {
        "tag"
    } else {
        "recipients"
    };
    Violation::new(
        format!("C19.field({})", f),
        format!("model {} != built {}", short(m), short(g)),
    )
}

mac_like!(
    exec_mac,
    coset::CoseMacBuilder,
    MMac,
    true,
    |b: &coset::CoseMac| MMac::from_coset(b),
    |m: &mut MMac, r: MRecipient| m.recipients.push(r),
    |cr: coset::CoseRecipient| -> Ap<coset::CoseMacBuilder> {
        ok(move |b: coset::CoseMacBuilder| b.add_recipient(cr))
    },
    "CoseMac"
);
mac_like!(
    exec_mac0,
    coset::CoseMac0Builder,
    MMac0,
    false,
    |b: &coset::CoseMac0| MMac0::from_coset(b),
    |_m: &mut MMac0, _r: MRecipient| {},
    |_cr: coset::CoseRecipient| -> Ap<coset::CoseMac0Builder> {
        ok(move |b: coset::CoseMac0Builder| b)
    },
    "CoseMac0"
);

fn exec_encrypt(t: &Trace) -> HResult<Option<Violation>> {
    type B = coset::CoseEncryptBuilder;
    let mut b = if ctor_name(t) == "default" {
        B::default()
    } else {
        B::new()
    };
    let mut m = MEncrypt::default();
    drive!(b, t.steps, |s| {
        if let Some(x) = hdr_ops!(s, m, B) {
            x
        } else {
            match s.name.as_str() {
                "ciphertext" => {
                    let v = s.bytes(0)?.to_vec();
                    m.ciphertext = Some(v.clone());
                    (Pred::Accept, ok(move |b: B| b.ciphertext(v)), None)
                }
                "create_ciphertext" => {
                    let pt = s.bytes(0)?.to_vec();
                    let aad = s.bytes(1)?.to_vec();
                    let tok = s.bytes(2)?.to_vec();
                    m.ciphertext = Some(bind2(
                        &tok,
                        &pt,
                        &ref_enc_structure("Encrypt", &m.protected, &aad),
                    ));
                    (
                        Pred::Accept,
                        ok(move |b: B| b.create_ciphertext(&pt, &aad, |p, a| bind2(&tok, p, a))),
                        None,
                    )
                }
                "try_create_ciphertext" => {
                    let pt = s.bytes(0)?.to_vec();
                    let aad = s.bytes(1)?.to_vec();
                    let tok = s.bytes(2)?.to_vec();
                    let fail = s.int(3)? == 1;
                    let e = tok_err(&tok);
                    if !fail {
                        m.ciphertext = Some(bind2(
                            &tok,
                            &pt,
                            &ref_enc_structure("Encrypt", &m.protected, &aad),
                        ));
                    }
                    let e2 = e.clone();
                    let ap: Ap<B> = Box::new(move |b: B| {
                        b.try_create_ciphertext(&pt, &aad, |p, a| {
                            if fail {
                                Err(e2)
                            } else {
                                Ok(bind2(&tok, p, a))
                            }
                        })
                    });
                    (Pred::Accept, ap, if fail { Some(e) } else { None })
                }
                "add_recipient" => {
                    let r = recipient_from_args(s, 0)?;
                    let cr = r.to_coset();
                    m.recipients.push(r);
                    (Pred::Accept, ok(move |b: B| b.add_recipient(cr)), None)
                }
                x => return herr(format!("CoseEncrypt: unknown op {}", x)),
            }
        }
    });
    let built = b.build();
    let got = MEncrypt::from_coset(&built);
    if let Some(v) = cmp_protected("protected", &m.protected, &got.protected) {
        return Ok(Some(v));
    }
    if let Some(v) = cmp_header("unprotected.", &m.unprotected, &got.unprotected) {
        return Ok(Some(v));
    }
    cmp_field!("ciphertext", m.ciphertext, got.ciphertext);
    cmp_field!("recipients", m.recipients, got.recipients);
    Ok(enc_obs(built, m.to_coset()))
}

fn exec_encrypt0(t: &Trace) -> HResult<Option<Violation>> {
    type B = coset::CoseEncrypt0Builder;
    let mut b = if ctor_name(t) == "default" {
        B::default()
    } else {
        B::new()
    };
    let mut m = MEncrypt0::default();
    drive!(b, t.steps, |s| {
        if let Some(x) = hdr_ops!(s, m, B) {
            x
        } else {
            match s.name.as_str() {
                "ciphertext" => {
                    let v = s.bytes(0)?.to_vec();
                    m.ciphertext = Some(v.clone());
                    (Pred::Accept, ok(move |b: B| b.ciphertext(v)), None)
                }
                "create_ciphertext" => {
                    let pt = s.bytes(0)?.to_vec();
                    let aad = s.bytes(1)?.to_vec();
                    let tok = s.bytes(2)?.to_vec();
                    m.ciphertext = Some(bind2(
                        &tok,
                        &pt,
                        &ref_enc_structure("Encrypt0", &m.protected, &aad),
                    ));
                    (
                        Pred::Accept,
                        ok(move |b: B| b.create_ciphertext(&pt, &aad, |p, a| bind2(&tok, p, a))),
                        None,
                    )
                }
                "try_create_ciphertext" => {
                    let pt = s.bytes(0)?.to_vec();
                    let aad = s.bytes(1)?.to_vec();
                    let tok = s.bytes(2)?.to_vec();
                    let fail = s.int(3)? == 1;
                    let e = tok_err(&tok);
                    if !fail {
                        m.ciphertext = Some(bind2(
                            &tok,
                            &pt,
                            &ref_enc_structure("Encrypt0", &m.protected, &aad),
                        ));
                    }
                    let e2 = e.clone();
                    let ap: Ap<B> = Box::new(move |b: B| {
                        b.try_create_ciphertext(&pt, &aad, |p, a| {
                            if fail {
                                Err(e2)
                            } else {
                                Ok(bind2(&tok, p, a))
                            }
                        })
                    });
                    (Pred::Accept, ap, if fail { Some(e) } else { None })
                }
                x => return herr(format!("CoseEncrypt0: unknown op {}", x)),
            }
        }
    });
    let built = b.build();
    let got = MEncrypt0::from_coset(&built);
    if let Some(v) = cmp_protected("protected", &m.protected, &got.protected) {
        return Ok(Some(v));
    }
    if let Some(v) = cmp_header("unprotected.", &m.unprotected, &got.unprotected) {
        return Ok(Some(v));
    }
    cmp_field!("ciphertext", m.ciphertext, got.ciphertext);
    Ok(enc_obs(built, m.to_coset()))
}

fn exec_recipient(t: &Trace) -> HResult<Option<Violation>> {
    type B = coset::CoseRecipientBuilder;
    let mut b = if ctor_name(t) == "default" {
        B::default()
    } else {
        B::new()
    };
    let mut m = MRecipient::default();
    drive!(b, t.steps, |s| {
        if let Some(x) = hdr_ops!(s, m, B) {
            x
        } else {
            match s.name.as_str() {
                "ciphertext" => {
                    let v = s.bytes(0)?.to_vec();
                    m.ciphertext = Some(v.clone());
                    (Pred::Accept, ok(move |b: B| b.ciphertext(v)), None)
                }
                "add_recipient" => {
                    let r = recipient_from_args(s, 0)?;
                    let cr = r.to_coset();
                    m.recipients.push(r);
                    (Pred::Accept, ok(move |b: B| b.add_recipient(cr)), None)
                }
                "create_ciphertext" => {
                    let cn = s.sym(0)?.to_string();
                    let ctx = ctx_from_name(&cn)?;
                    let pt = s.bytes(1)?.to_vec();
                    let aad = s.bytes(2)?.to_vec();
                    let tok = s.bytes(3)?.to_vec();
                    let pred = if ctx_is_recipient(&cn) {
                        Pred::Accept
                    } else {
                        Pred::Refuse
                    };
                    if pred == Pred::Accept {
                        m.ciphertext = Some(bind2(
                            &tok,
                            &pt,
                            &ref_enc_structure(ctx_text(&cn), &m.protected, &aad),
                        ));
                    }
                    (
                        pred,
                        ok(move |b: B| {
                            b.create_ciphertext(ctx, &pt, &aad, |p, a| bind2(&tok, p, a))
                        }),
                        None,
                    )
                }
                "try_create_ciphertext" => {
                    let cn = s.sym(0)?.to_string();
                    let ctx = ctx_from_name(&cn)?;
                    let pt = s.bytes(1)?.to_vec();
                    let aad = s.bytes(2)?.to_vec();
                    let tok = s.bytes(3)?.to_vec();
                    let fail = s.int(4)? == 1;
                    let e = tok_err(&tok);
                    let pred = if ctx_is_recipient(&cn) {
                        Pred::Accept
                    } else {
                        Pred::Refuse
                    };
                    if pred == Pred::Accept && !fail {
                        m.ciphertext = Some(bind2(
                            &tok,
                            &pt,
                            &ref_enc_structure(ctx_text(&cn), &m.protected, &aad),
                        ));
                    }
                    let e2 = e.clone();
                    let ap: Ap<B> = Box::new(move |b: B| {
                        b.try_create_ciphertext(ctx, &pt, &aad, |p, a| {
                            if fail {
                                Err(e2)
                            } else {
                                Ok(bind2(&tok, p, a))
                            }
                        })
                    });
                    (
                        pred,
                        ap,
                        if fail && pred == Pred::Accept {
                            Some(e)
                        } else {
                            None
                        },
                    )
                }
                x => return herr(format!("CoseRecipient: unknown op {}", x)),
            }
        }
    });
    let built = b.build();
    let got = MRecipient::from_coset(&built);
    if let Some(v) = cmp_protected("protected", &m.protected, &got.protected) {
        return Ok(Some(v));
    }
    if let Some(v) = cmp_header("unprotected.", &m.unprotected, &got.unprotected) {
        return Ok(Some(v));
    }
    cmp_field!("ciphertext", m.ciphertext, got.ciphertext);
    cmp_field!("recipients", m.recipients, got.recipients);
    Ok(enc_obs(built, m.to_coset()))
}

fn exec_key(t: &Trace) -> HResult<Option<Violation>> {
    type B = coset::CoseKeyBuilder;
    let c = t.steps.iter().find(|s| s.kind == "ctor");
    let mut m = MKey::default();
    let bv = |v: &[u8]| MValue::Bytes(v.to_vec());
    let mut b = match c.map(|s| (s.name.as_str(), s)) {
        None | Some(("new", _)) => B::new(),
        Some(("default", _)) => B::default(),
        Some(("new_ec2_pub_key", s)) => {
            let cv = s.i64(0)?;
            let (x, y) = (s.bytes(1)?.to_vec(), s.bytes(2)?.to_vec());
            m.kty = MReg::Assigned(2);
            m.params = vec![
                (MLabel::Int(-1), MValue::Int(cv as i128)),
                (MLabel::Int(-2), bv(&x)),
                (MLabel::Int(-3), bv(&y)),
            ];
            B::new_ec2_pub_key(curve(cv)?, x, y)
        }
        Some(("new_ec2_pub_key_y_sign", s)) => {
            let cv = s.i64(0)?;
            let x = s.bytes(1)?.to_vec();
            let sign = s.int(2)? == 1;
            m.kty = MReg::Assigned(2);
            m.params = vec![
                (MLabel::Int(-1), MValue::Int(cv as i128)),
                (MLabel::Int(-2), bv(&x)),
                (MLabel::Int(-3), MValue::Bool(sign)),
            ];
            B::new_ec2_pub_key_y_sign(curve(cv)?, x, sign)
        }
        Some(("new_ec2_priv_key", s)) => {
            let cv = s.i64(0)?;
            let (x, y, d) = (
                s.bytes(1)?.to_vec(),
                s.bytes(2)?.to_vec(),
                s.bytes(3)?.to_vec(),
            );
            m.kty = MReg::Assigned(2);
            m.params = vec![
                (MLabel::Int(-1), MValue::Int(cv as i128)),
                (MLabel::Int(-2), bv(&x)),
                (MLabel::Int(-3), bv(&y)),
                (MLabel::Int(-4), bv(&d)),
            ];
            B::new_ec2_priv_key(curve(cv)?, x, y, d)
        }
        Some(("new_symmetric_key", s)) => {
            let k = s.bytes(0)?.to_vec();
            m.kty = MReg::Assigned(4);
            m.params = vec![(MLabel::Int(-1), bv(&k))];
            B::new_symmetric_key(k)
        }
        Some(("new_okp_key", _)) => {
            m.kty = MReg::Assigned(1);
            B::new_okp_key()
        }
        Some((x, _)) => return herr(format!("CoseKey: unknown ctor {}", x)),
    };
    drive!(b, t.steps, |s| {
        match s.name.as_str() {
            "kty" => {
                let (ml, cl) = match s.sym(0)? {
                    "int" => {
                        let i = s.i64(1)?;
                        (
                            MReg::Assigned(i),
                            coset::RegisteredLabel::Assigned(reg_or_herr!(iana::KeyType, i)?),
                        )
                    }
                    _ => {
                        let x = s.text(1)?.to_string();
                        (MReg::Text(x.clone()), coset::RegisteredLabel::Text(x))
                    }
                };
                m.kty = ml;
                (Pred::Accept, ok(move |b: B| b.kty(cl)), None)
            }
            "key_type" => {
                let i = s.i64(0)?;
                let k = reg_or_herr!(iana::KeyType, i)?;
                m.kty = MReg::Assigned(i);
                (Pred::Accept, ok(move |b: B| b.key_type(k)), None)
            }
            "key_id" => {
                let v = s.bytes(0)?.to_vec();
                m.key_id = v.clone();
                (Pred::Accept, ok(move |b: B| b.key_id(v)), None)
            }
            "base_iv" => {
                let v = s.bytes(0)?.to_vec();
                m.base_iv = v.clone();
                (Pred::Accept, ok(move |b: B| b.base_iv(v)), None)
            }
            "algorithm" => {
                let i = s.i64(0)?;
                let a = reg_or_herr!(iana::Algorithm, i)?;
                m.alg = Some(MRegP::Assigned(i));
                (Pred::Accept, ok(move |b: B| b.algorithm(a)), None)
            }
            "add_key_op" => {
                let i = s.i64(0)?;
                let op = reg_or_herr!(iana::KeyOperation, i)?;
                m.key_ops.insert(MReg::Assigned(i));
                (Pred::Accept, ok(move |b: B| b.add_key_op(op)), None)
            }
            "param" => {
                let l = s.i64(0)?;
                let v = value_from_arg(s, 1)?;
                let cv = v.to_value();
                // common key parameters 1..=5 are refused; 0 (IANA "Reserved") is left open by the
                // property statement, both outcomes are accepted
                let pred = if (1..=5).contains(&l) {
                    Pred::Refuse
                } else if l == 0 {
                    Pred::Either
                } else {
                    Pred::Accept
                };
                if pred != Pred::Refuse {
                    m.params.push((MLabel::Int(l), v));
                }
                (pred, ok(move |b: B| b.param(l, cv)), None)
            }
            x => return herr(format!("CoseKey: unknown op {}", x)),
        }
    });
    let built = b.build();
    let got = MKey::from_coset(&built);
    cmp_field!("kty", m.kty, got.kty);
    cmp_field!("key_id", m.key_id, got.key_id);
    cmp_field!("alg", m.alg, got.alg);
    cmp_field!("key_ops", m.key_ops, got.key_ops);
    cmp_field!("base_iv", m.base_iv, got.base_iv);
    cmp_field!("params", m.params, got.params);
    // documented on the extra-parameter field and the adder calls: if a label was added twice,
    // CBOR-encoding fails
    {
        let labels: Vec<&MLabel> = m.params.iter().map(|(l, _)| l).collect();
        let mut dup = false;
        for i in 0..labels.len() {
            for j in (i + 1)..labels.len() {
                if labels[i] == labels[j] {
                    dup = true;
                }
            }
        }
        let enc = guarded(|| built.clone().to_vec());
        match (dup, enc) {
            (true, Ok(Ok(bytes))) => {
                return Ok(Some(Violation::new(
                    "C19.duplicate-encodes",
                    format!("the key holds the same extra label twice, which is documented to make CBOR-encoding fail, but it encodes as {}", crate::util::hex_short(&bytes)),
                )))
            }
            (false, Ok(Err(e))) => {
                return Ok(Some(Violation::new(
                    "C19.duplicate-encodes",
                    format!("the key holds no repeated extra label but does not encode: {:?}", e),
                )))
            }
            _ => {}
        }
    }
    Ok(enc_obs(built, m.to_coset()))
}

fn exec_claims(t: &Trace) -> HResult<Option<Violation>> {
    type B = coset::cwt::ClaimsSetBuilder;
    let mut b = if ctor_name(t) == "default" {
        B::default()
    } else {
        B::new()
    };
    let mut m = MClaims::default();
    drive!(b, t.steps, |s| {
        match s.name.as_str() {
            "issuer" => {
                let x = s.text(0)?.to_string();
                m.issuer = Some(x.clone());
                (Pred::Accept, ok(move |b: B| b.issuer(x)), None)
            }
            "subject" => {
                let x = s.text(0)?.to_string();
                m.subject = Some(x.clone());
                (Pred::Accept, ok(move |b: B| b.subject(x)), None)
            }
            "audience" => {
                let x = s.text(0)?.to_string();
                m.audience = Some(x.clone());
                (Pred::Accept, ok(move |b: B| b.audience(x)), None)
            }
            "expiration_time" => {
                let ts = ts_from(s)?;
                let c = ts.to_coset();
                m.expiration_time = Some(ts);
                (Pred::Accept, ok(move |b: B| b.expiration_time(c)), None)
            }
            "not_before" => {
                let ts = ts_from(s)?;
                let c = ts.to_coset();
                m.not_before = Some(ts);
                (Pred::Accept, ok(move |b: B| b.not_before(c)), None)
            }
            "issued_at" => {
                let ts = ts_from(s)?;
                let c = ts.to_coset();
                m.issued_at = Some(ts);
                (Pred::Accept, ok(move |b: B| b.issued_at(c)), None)
            }
            "cwt_id" => {
                let v = s.bytes(0)?.to_vec();
                m.cwt_id = Some(v.clone());
                (Pred::Accept, ok(move |b: B| b.cwt_id(v)), None)
            }
            "claim" => {
                let n = s.i64(0)?;
                let name = reg_or_herr!(iana::CwtClaimName, n)?;
                let v = value_from_arg(s, 1)?;
                let cv = v.to_value();
                let pred = if (1..=7).contains(&n) {
                    Pred::Refuse
                } else {
                    Pred::Accept
                };
                if pred == Pred::Accept {
                    m.rest.push((MRegP::Assigned(n), v));
                }
                (pred, ok(move |b: B| b.claim(name, cv)), None)
            }
            "text_claim" => {
                let x = s.text(0)?.to_string();
                let v = value_from_arg(s, 1)?;
                let cv = v.to_value();
                m.rest.push((MRegP::Text(x.clone()), v));
                (Pred::Accept, ok(move |b: B| b.text_claim(x, cv)), None)
            }
            "private_claim" => {
                let id = s.i64(0)?;
                let v = value_from_arg(s, 1)?;
                let cv = v.to_value();
                // private use: integers below -65536
                let pred = if id < -65536 {
                    Pred::Accept
                } else {
                    Pred::Refuse
                };
                if pred == Pred::Accept {
                    m.rest.push((MRegP::Private(id), v));
                }
                (pred, ok(move |b: B| b.private_claim(id, cv)), None)
            }
            x => return herr(format!("ClaimsSet: unknown op {}", x)),
        }
    });
    let built = b.build();
    let got = MClaims::from_coset(&built);
    cmp_field!("issuer", m.issuer, got.issuer);
    cmp_field!("subject", m.subject, got.subject);
    cmp_field!("audience", m.audience, got.audience);
    cmp_field!("expiration_time", m.expiration_time, got.expiration_time);
    cmp_field!("not_before", m.not_before, got.not_before);
    cmp_field!("issued_at", m.issued_at, got.issued_at);
    cmp_field!("cwt_id", m.cwt_id, got.cwt_id);
    cmp_field!("rest", m.rest, got.rest);
    Ok(enc_obs(built, m.to_coset()))
}

fn exec_party(t: &Trace) -> HResult<Option<Violation>> {
    type B = coset::PartyInfoBuilder;
    let mut b = if ctor_name(t) == "default" {
        B::default()
    } else {
        B::new()
    };
    let mut m = MPartyInfo::default();
    drive!(b, t.steps, |s| {
        match s.name.as_str() {
            "identity" => {
                let v = s.bytes(0)?.to_vec();
                m.identity = Some(v.clone());
                (Pred::Accept, ok(move |b: B| b.identity(v)), None)
            }
            "nonce" => {
                let n = match s.sym(0)? {
                    "bytes" => MNonce::Bytes(s.bytes(1)?.to_vec()),
                    _ => MNonce::Integer(s.i64(1)?),
                };
                let c = n.to_coset();
                m.nonce = Some(n);
                (Pred::Accept, ok(move |b: B| b.nonce(c)), None)
            }
            "other" => {
                let v = s.bytes(0)?.to_vec();
                m.other = Some(v.clone());
                (Pred::Accept, ok(move |b: B| b.other(v)), None)
            }
            x => return herr(format!("PartyInfo: unknown op {}", x)),
        }
    });
    let built = b.build();
    let got = MPartyInfo::from_coset(&built);
    cmp_field!("identity", m.identity, got.identity);
    cmp_field!("nonce", m.nonce, got.nonce);
    cmp_field!("other", m.other, got.other);
    Ok(enc_obs(built, m.to_coset()))
}

fn exec_supp(t: &Trace) -> HResult<Option<Violation>> {
    type B = coset::SuppPubInfoBuilder;
    let mut b = if ctor_name(t) == "default" {
        B::default()
    } else {
        B::new()
    };
    let mut m = MSuppPubInfo::default();
    drive!(b, t.steps, |s| {
        match s.name.as_str() {
            "key_data_length" => {
                let v = s.u64(0)?;
                m.key_data_length = v;
                (Pred::Accept, ok(move |b: B| b.key_data_length(v)), None)
            }
            "protected" => {
                let h = header_from_arg(s, 0)?;
                let ch = h.to_coset();
                m.protected = MProtected::built(h);
                (Pred::Accept, ok(move |b: B| b.protected(ch)), None)
            }
            "other" => {
                let v = s.bytes(0)?.to_vec();
                m.other = Some(v.clone());
                (Pred::Accept, ok(move |b: B| b.other(v)), None)
            }
            x => return herr(format!("SuppPubInfo: unknown op {}", x)),
        }
    });
    let built = b.build();
    let got = MSuppPubInfo::from_coset(&built);
    cmp_field!("key_data_length", m.key_data_length, got.key_data_length);
    if let Some(v) = cmp_protected("protected", &m.protected, &got.protected) {
        return Ok(Some(v));
    }
    cmp_field!("other", m.other, got.other);
    Ok(enc_obs(built, m.to_coset()))
}

/// Structural equality of two refcbor trees, ignoring offsets and encoding widths.
fn item_equiv(a: &refcbor::Item, b: &refcbor::Item) -> bool {
    use refcbor::Kind::*;
    match (&a.kind, &b.kind) {
        (UInt(x), UInt(y)) | (NInt(x), NInt(y)) => x == y,
        (Text(x), Text(y)) => x == y,
        (Bytes(x), Bytes(y)) => {
            // byte strings that are themselves CBOR on both sides (protected headers) are compared
            // structurally, so that a float inside them may be emitted in any width
            x == y
                || match (refcbor::read_exact(x), refcbor::read_exact(y)) {
                    (Ok(a), Ok(b)) if !x.is_empty() && !y.is_empty() => item_equiv(&a, &b),
                    _ => false,
                }
        }
        (Array(x), Array(y)) => {
            x.len() == y.len() && x.iter().zip(y).all(|(p, q)| item_equiv(p, q))
        }
        (Map(x), Map(y)) => {
            x.len() == y.len()
                && x.iter()
                    .zip(y)
                    .all(|((k1, v1), (k2, v2))| item_equiv(k1, k2) && item_equiv(v1, v2))
        }
        (Tag(t1, x), Tag(t2, y)) => t1 == t2 && item_equiv(x, y),
        (Simple(x), Simple(y)) => x == y,
        (Float(w1, x), Float(w2, y)) => {
            float_val(*w1, *x).to_bits() == float_val(*w2, *y).to_bits()
        }
        _ => false,
    }
}

fn float_val(w: u8, bits: u64) -> f64 {
    match w {
        2 => {
            let h = bits as u16;
            let sign = if h & 0x8000 != 0 { -1.0 } else { 1.0 };
            let exp = ((h >> 10) & 0x1f) as i32;
            let frac = (h & 0x3ff) as f64;
            let v = if exp == 0 {
                frac * 2f64.powi(-24)
            } else if exp == 31 {
                if frac == 0.0 {
                    f64::INFINITY
                } else {
                    f64::NAN
                }
            } else {
                (1.0 + frac / 1024.0) * 2f64.powi(exp - 15)
            };
            sign * v
        }
        4 => f32::from_bits(bits as u32) as f64,
        _ => f64::from_bits(bits),
    }
}

fn exec_kdf(t: &Trace) -> HResult<Option<Violation>> {
    type B = coset::CoseKdfContextBuilder;
    let mut b = if ctor_name(t) == "default" {
        B::default()
    } else {
        B::new()
    };
    let mut m = MKdf::default();
    let parties = party_palette();
    let supps = supp_pub_palette();
    drive!(b, t.steps, |s| {
        match s.name.as_str() {
            "party_u_info" => {
                let p = party_from(s, &parties)?;
                let c = p.to_coset();
                m.party_u_info = p;
                (Pred::Accept, ok(move |b: B| b.party_u_info(c)), None)
            }
            "party_v_info" => {
                let p = party_from(s, &parties)?;
                let c = p.to_coset();
                m.party_v_info = p;
                (Pred::Accept, ok(move |b: B| b.party_v_info(c)), None)
            }
            "supp_pub_info" => {
                let p = supp_from(s, &supps)?;
                let c = p.to_coset();
                m.supp_pub_info = p;
                (Pred::Accept, ok(move |b: B| b.supp_pub_info(c)), None)
            }
            "algorithm" => {
                let i = s.i64(0)?;
                let a = reg_or_herr!(iana::Algorithm, i)?;
                m.algorithm_id = MRegP::Assigned(i);
                (Pred::Accept, ok(move |b: B| b.algorithm(a)), None)
            }
            "add_supp_priv_info" => {
                let v = s.bytes(0)?.to_vec();
                m.supp_priv_info.push(v.clone());
                (Pred::Accept, ok(move |b: B| b.add_supp_priv_info(v)), None)
            }
            x => return herr(format!("CoseKdfContext: unknown op {}", x)),
        }
    });
    // The fields are private: observe the built value through its encoding, read by the
    // independent CBOR reader, and compare with the model's reference encoding tree.
    let built = b.build();
    let bytes = match guarded(|| built.clone().to_vec()) {
        Ok(Ok(x)) => x,
        Ok(Err(e)) => {
            return Ok(Some(Violation::new(
                "C19.field(kdf-encoding)",
                format!("built context does not encode: {:?}", e),
            )))
        }
        Err(p) => {
            return Ok(Some(Violation::new(
                "C19.field(kdf-encoding)",
                format!("encoding the built context panicked: {}", p),
            )))
        }
    };
    let got = match refcbor::read_exact(&bytes) {
        Ok(i) => i,
        Err(e) => {
            return Ok(Some(Violation::new(
                "C19.field(kdf-encoding)",
                format!(
                    "encoding is not CBOR: {:?} {}",
                    e,
                    crate::util::hex_short(&bytes)
                ),
            )))
        }
    };
    let want = m.to_item();
    if !item_equiv(&want, &got) {
        // name the slot that differs
        let names = [
            "algorithm_id",
            "party_u_info",
            "party_v_info",
            "supp_pub_info",
        ];
        let mut field = "supp_priv_info".to_string();
        if let (Some(w), Some(g)) = (want.as_array(), got.as_array()) {
            for i in 0..4 {
                match (w.get(i), g.get(i)) {
                    (Some(x), Some(y)) if item_equiv(x, y) => {}
                    _ => {
                        field = names[i].to_string();
                        break;
                    }
                }
            }
        }
        return Ok(Some(Violation::new(
            format!("C19.field({})", field),
            format!(
                "model encodes as {} but built value encodes as {}",
                crate::util::hex_short(&refcbor::encode(&want)),
                crate::util::hex_short(&bytes)
            ),
        )));
    }
    // Second observation: the model's own encoding, decoded by coset and re-encoded, must give
    // the same bytes as the built value (so a codec fault cannot masquerade as a builder fault
    // unnoticed, nor the reverse).
    let model_bytes = refcbor::encode(&want);
    match guarded(|| coset::CoseKdfContext::from_slice(&model_bytes).and_then(|c| c.to_vec())) {
        Ok(Ok(re)) => {
            // compared structurally: the decoded copy re-emits the model's protected bytes as they
            // were, the built value emits its own (a float inside may differ in width)
            let same = re == bytes
                || match (refcbor::read_exact(&re), refcbor::read_exact(&bytes)) {
                    (Ok(a), Ok(b)) => item_equiv(&a, &b),
                    _ => false,
                };
            if !same {
                return Ok(Some(Violation::new(
                    "C19.field(kdf-second-observation)",
                    format!("decode+encode of the model bytes gives {} but the built value encodes as {}", crate::util::hex_short(&re), crate::util::hex_short(&bytes)),
                )));
            }
        }
        Ok(Err(_)) | Err(_) => {
            // the model encoding was not accepted: a decoder matter (C18), not judged here
        }
    }
    Ok(None)
}

impl Engine for C19 {
    fn id(&self) -> &'static str {
        "C19"
    }
    fn info(&self) -> EngineInfo {
        EngineInfo {
            level: "exploration",
            rule: "Each run is one seeded history: a constructor (new/default/named key constructor) followed by 0-16 calls (1 history in 50: 17-64 calls, 1 in 500: 65-300 calls, half of them repeating one method) drawn uniformly from every public method of one of the 14 builders, arguments from palettes that include empty, boundary and reserved values, mixed with every registry value found by scanning from_i64 over [-70000, 70000], random labels and byte strings of arbitrary and typical key sizes; the history is executed on the real builder and on the field-map model and every public field of build() is compared, and the built value's encoding is compared with the encoding of the same value assembled from the model through struct literals (so state that is not visible in the public fields still shows). A case is non-trivial when it has at least one call after the constructor; distinct = distinct (builder, constructor, call sequence with arguments) by 64-bit hash of the materialised trace.",
            distinct_classes: &["call-name sequences", "adjacent ordered pairs of methods per builder", "adjacent ordered triples of methods per builder", "(builder, method) reached"],
            assumptions: &[
                "the model encodes the doc comments and the property statement (Appendix A of DESIGN.md); `param(0, ..)` is left open (either outcome accepted)",
                "iana registry from_i64/to_i64 are trusted for turning palette integers into enum values (C17 is not claimed)",
                "CoseKdfContext has private fields and is observed through its encoding read by the harness's own CBOR reader",
                "sampled, not exhaustive: histories up to 16 calls over finite palettes",
            ],
            real_components: &["all coset *Builder types and their build() results (real code, release profile with overflow checks and debug assertions)"],
            stub_components: &["signer/MAC/cipher closures return fixed tokens or a fixed error", "reference model (plain structs)"],
            fault_kinds: &["none - no fault, schedule or clock dimension exists for builders (DESIGN.md 5.5)", "creator-fails (try_ helpers): exercised here only as 'error passes through, nothing built'"],
            design_ref: "DESIGN.md section 5.5, Appendix A",
        }
    }
    fn runs(&self, tier: Tier) -> u64 {
        match tier {
            Tier::Quick => 1_500_000,
            Tier::Thorough => 40_000_000,
        }
    }
    fn batch(&self) -> u64 {
        4096
    }
    fn gen(&self, seed: u64, run: u64, _tier: Tier) -> Trace {
        let mut rng = Rng::for_run(seed, run, "C19");
        let mut t = Trace::new("C19", seed, run);
        crate::palette::draw_favourite_header(&mut rng);
        let builder = BUILDERS[rng.below(BUILDERS.len())];
        t.set_meta("builder", builder);
        if rng.chance(1, 4) {
            t.set_meta("headers", "decoded");
        }
        t.push(gen_ctor(builder, &mut rng));
        // 1 history in 50 is long (17-64 calls) and half of those repeat one method many times
        if rng.chance(1, 50) {
            // 1 in 10 of the long ones is very long (65-300 calls: growth boundaries of the
            // underlying vectors, anything that counts calls)
            let n = if rng.chance(1, 10) {
                rng.range(65, 300)
            } else {
                rng.range(17, 64)
            };
            let repeat = rng.bool();
            let first = gen_op(builder, &mut rng);
            for i in 0..n {
                let mut op = gen_op(builder, &mut rng);
                if repeat && i % 4 != 3 {
                    // same method, fresh arguments
                    for _ in 0..64 {
                        if op.name == first.name {
                            break;
                        }
                        op = gen_op(builder, &mut rng);
                    }
                }
                t.push(op);
            }
        } else {
            let n = rng.range(0, 16);
            for _ in 0..n {
                t.push(gen_op(builder, &mut rng));
            }
        }
        crate::palette::clear_favourite_header();
        t
    }
    fn exec(&self, t: &Trace, st: &mut RunStats) -> HResult<Option<Violation>> {
        let builder = t.meta_req("builder")?.to_string();
        crate::model::set_headers_via_decode(if t.meta("headers") == Some("decoded") {
            2
        } else {
            0
        });
        let nops = t.steps.iter().filter(|s| s.kind == "op").count();
        st.inc(&format!("histories:{}", builder));
        st.add("builder_calls", nops as u64);
        if nops >= 1 {
            st.distinct(0, t.hash());
        }
        st.distinct(1, t.shape_hash());
        let ops: Vec<&Step> = t.steps.iter().filter(|s| s.kind == "op").collect();
        for w in ops.windows(2) {
            let mut h = Hasher64::new();
            h.str(&builder).str(&w[0].name).str(&w[1].name);
            st.distinct(2, h.finish());
        }
        for w in ops.windows(3) {
            let mut h = Hasher64::new();
            h.str(&builder)
                .str(&w[0].name)
                .str(&w[1].name)
                .str(&w[2].name);
            st.distinct(3, h.finish());
        }
        for o in &ops {
            let mut h = Hasher64::new();
            h.str(&builder).str(&o.name);
            st.distinct(4, h.finish());
        }
        let r = match builder.as_str() {
            "Header" => exec_header(t),
            "CoseSignature" => exec_signature(t),
            "CoseSign" => exec_sign(t),
            "CoseSign1" => exec_sign1(t),
            "CoseMac" => exec_mac(t),
            "CoseMac0" => exec_mac0(t),
            "CoseEncrypt" => exec_encrypt(t),
            "CoseEncrypt0" => exec_encrypt0(t),
            "CoseRecipient" => exec_recipient(t),
            "CoseKey" => exec_key(t),
            "ClaimsSet" => exec_claims(t),
            "PartyInfo" => exec_party(t),
            "SuppPubInfo" => exec_supp(t),
            "CoseKdfContext" => exec_kdf(t),
            x => return herr(format!("unknown builder {}", x)),
        }?;
        Ok(r)
    }
    fn step_is_fixed(&self, t: &Trace, idx: usize) -> bool {
        t.steps[idx].kind == "ctor"
    }
    fn shrink(&self, t: &Trace) -> Vec<Trace> {
        shrink_args(t)
    }
    fn finding_key(&self, t: &Trace, invariant: &str) -> String {
        let ops: Vec<&str> = t
            .steps
            .iter()
            .filter(|s| s.kind == "op")
            .map(|s| s.name.as_str())
            .collect();
        format!(
            "{}:{}:{}",
            t.meta("builder").unwrap_or("?"),
            invariant,
            ops.join(",")
        )
    }
}

/// Generic argument shrinking: byte strings -> empty / one byte, palette indices -> 0,
/// integers that are palette indices stay valid because 0 is always a valid index.
pub fn shrink_args(t: &Trace) -> Vec<Trace> {
    let mut out = Vec::new();
    for (si, s) in t.steps.iter().enumerate() {
        for (ai, a) in s.args.iter().enumerate() {
            let mut push = |na: Arg| {
                let mut c = t.clone();
                c.steps[si].args[ai] = na;
                out.push(c);
            };
            match a {
                Arg::B(b) if b.len() > 1 => {
                    push(Arg::B(vec![]));
                    push(Arg::B(vec![b[0]]));
                }
                Arg::B(b) if b.len() == 1 && b[0] != 0 => push(Arg::B(vec![])),
                Arg::T(x) if x.len() > 1 => {
                    push(Arg::T(String::new()));
                    push(Arg::T("a".into()));
                }
                _ => {}
            }
        }
    }
    out
}
