//! Reference model: plain Rust structs mirroring the documented content of every coset type.
//! No coset type is stored inside a model value; conversion functions at the bottom build coset
//! values from descriptors (struct literals, never coset's builders) and read coset values back
//! through their public fields.

use crate::refcbor::{Item, Kind};
use coset::cbor::value::Value;
use coset::iana::{self, EnumI64};
use std::collections::BTreeSet;

thread_local! {
    static HEADERS_VIA_DECODE: std::cell::Cell<u8> = const { std::cell::Cell::new(0) };
}

/// Per-run switch: build coset `Header` values by decoding the descriptor's reference encoding
/// instead of through struct literals.
pub fn set_headers_via_decode(mode: u8) {
    HEADERS_VIA_DECODE.with(|c| c.set(mode));
}

#[derive(Clone, Debug, PartialEq, Eq, PartialOrd, Ord)]
pub enum MValue {
    Int(i128),
    Bytes(Vec<u8>),
    Text(String),
    Array(Vec<MValue>),
    Map(Vec<(MValue, MValue)>),
    Tag(u64, Box<MValue>),
    Bool(bool),
    Null,
    /// f64 bits
    Float(u64),
}

#[derive(Clone, Debug, PartialEq, Eq, PartialOrd, Ord)]
pub enum MLabel {
    Int(i64),
    Text(String),
}

/// Label restricted to a registry (critical-header labels, content type, key type, key operation).
#[derive(Clone, Debug, PartialEq, Eq, PartialOrd, Ord)]
pub enum MReg {
    Assigned(i64),
    Text(String),
}

/// Label from a registry with a private-use range (algorithm, claim name).
#[derive(Clone, Debug, PartialEq, Eq, PartialOrd, Ord)]
pub enum MRegP {
    Assigned(i64),
    Private(i64),
    Text(String),
}

#[derive(Clone, Debug, Default, PartialEq)]
pub struct MHeader {
    pub alg: Option<MRegP>,
    pub crit: Vec<MReg>,
    pub content_type: Option<MReg>,
    pub key_id: Vec<u8>,
    pub iv: Vec<u8>,
    pub partial_iv: Vec<u8>,
    pub counter_signatures: Vec<MSignature>,
    pub rest: Vec<(MLabel, MValue)>,
}

impl MHeader {
    pub fn is_empty(&self) -> bool {
        self.alg.is_none()
            && self.crit.is_empty()
            && self.content_type.is_none()
            && self.key_id.is_empty()
            && self.iv.is_empty()
            && self.partial_iv.is_empty()
            && self.counter_signatures.is_empty()
            && self.rest.is_empty()
    }
}

#[derive(Clone, Debug, Default, PartialEq)]
pub struct MProtected {
    pub original: Option<Vec<u8>>,
    pub header: MHeader,
}

impl MProtected {
    pub fn built(h: MHeader) -> Self {
        MProtected {
            original: None,
            header: h,
        }
    }
}

#[derive(Clone, Debug, Default, PartialEq)]
pub struct MSignature {
    pub protected: MProtected,
    pub unprotected: MHeader,
    pub signature: Vec<u8>,
}

#[derive(Clone, Debug, Default, PartialEq)]
pub struct MSign {
    pub protected: MProtected,
    pub unprotected: MHeader,
    pub payload: Option<Vec<u8>>,
    pub signatures: Vec<MSignature>,
}

#[derive(Clone, Debug, Default, PartialEq)]
pub struct MSign1 {
    pub protected: MProtected,
    pub unprotected: MHeader,
    pub payload: Option<Vec<u8>>,
    pub signature: Vec<u8>,
}

#[derive(Clone, Debug, Default, PartialEq)]
pub struct MRecipient {
    pub protected: MProtected,
    pub unprotected: MHeader,
    pub ciphertext: Option<Vec<u8>>,
    pub recipients: Vec<MRecipient>,
}

#[derive(Clone, Debug, Default, PartialEq)]
pub struct MEncrypt {
    pub protected: MProtected,
    pub unprotected: MHeader,
    pub ciphertext: Option<Vec<u8>>,
    pub recipients: Vec<MRecipient>,
}

#[derive(Clone, Debug, Default, PartialEq)]
pub struct MEncrypt0 {
    pub protected: MProtected,
    pub unprotected: MHeader,
    pub ciphertext: Option<Vec<u8>>,
}

#[derive(Clone, Debug, Default, PartialEq)]
pub struct MMac {
    pub protected: MProtected,
    pub unprotected: MHeader,
    pub payload: Option<Vec<u8>>,
    pub tag: Vec<u8>,
    pub recipients: Vec<MRecipient>,
}

#[derive(Clone, Debug, Default, PartialEq)]
pub struct MMac0 {
    pub protected: MProtected,
    pub unprotected: MHeader,
    pub payload: Option<Vec<u8>>,
    pub tag: Vec<u8>,
}

#[derive(Clone, Debug, PartialEq)]
pub struct MKey {
    pub kty: MReg,
    pub key_id: Vec<u8>,
    pub alg: Option<MRegP>,
    pub key_ops: BTreeSet<MReg>,
    pub base_iv: Vec<u8>,
    pub params: Vec<(MLabel, MValue)>,
}

impl Default for MKey {
    fn default() -> Self {
        MKey {
            kty: MReg::Assigned(0),
            key_id: vec![],
            alg: None,
            key_ops: BTreeSet::new(),
            base_iv: vec![],
            params: vec![],
        }
    }
}

#[derive(Clone, Debug, PartialEq)]
pub enum MTimestamp {
    Whole(i64),
    /// f64 bits
    Frac(u64),
}

#[derive(Clone, Debug, Default, PartialEq)]
pub struct MClaims {
    pub issuer: Option<String>,
    pub subject: Option<String>,
    pub audience: Option<String>,
    pub expiration_time: Option<MTimestamp>,
    pub not_before: Option<MTimestamp>,
    pub issued_at: Option<MTimestamp>,
    pub cwt_id: Option<Vec<u8>>,
    pub rest: Vec<(MRegP, MValue)>,
}

#[derive(Clone, Debug, PartialEq, Eq)]
pub enum MNonce {
    Bytes(Vec<u8>),
    Integer(i64),
}

#[derive(Clone, Debug, Default, PartialEq)]
pub struct MPartyInfo {
    pub identity: Option<Vec<u8>>,
    pub nonce: Option<MNonce>,
    pub other: Option<Vec<u8>>,
}

#[derive(Clone, Debug, Default, PartialEq)]
pub struct MSuppPubInfo {
    pub key_data_length: u64,
    pub protected: MProtected,
    pub other: Option<Vec<u8>>,
}

#[derive(Clone, Debug, PartialEq)]
pub struct MKdf {
    pub algorithm_id: MRegP,
    pub party_u_info: MPartyInfo,
    pub party_v_info: MPartyInfo,
    pub supp_pub_info: MSuppPubInfo,
    pub supp_priv_info: Vec<Vec<u8>>,
}

impl Default for MKdf {
    fn default() -> Self {
        MKdf {
            // `Algorithm::default()` is documented as Assigned(Reserved) = 0
            algorithm_id: MRegP::Assigned(0),
            party_u_info: MPartyInfo::default(),
            party_v_info: MPartyInfo::default(),
            supp_pub_info: MSuppPubInfo::default(),
            supp_priv_info: vec![],
        }
    }
}

// ---------------------------------------------------------------------------------------------
// MValue <-> ciborium Value, MValue -> refcbor Item
// ---------------------------------------------------------------------------------------------

impl MValue {
    pub fn to_value(&self) -> Value {
        match self {
            MValue::Int(i) => {
                if *i >= 0 {
                    Value::Integer((*i as u64).into())
                } else if *i >= i64::MIN as i128 {
                    Value::Integer((*i as i64).into())
                } else {
                    Value::Integer(coset::cbor::value::Integer::try_from(*i).expect("int range"))
                }
            }
            MValue::Bytes(b) => Value::Bytes(b.clone()),
            MValue::Text(t) => Value::Text(t.clone()),
            MValue::Array(a) => Value::Array(a.iter().map(|x| x.to_value()).collect()),
            MValue::Map(m) => Value::Map(
                m.iter()
                    .map(|(k, v)| (k.to_value(), v.to_value()))
                    .collect(),
            ),
            MValue::Tag(t, v) => Value::Tag(*t, Box::new(v.to_value())),
            MValue::Bool(b) => Value::Bool(*b),
            MValue::Null => Value::Null,
            MValue::Float(bits) => Value::Float(f64::from_bits(*bits)),
        }
    }

    pub fn from_value(v: &Value) -> MValue {
        match v {
            Value::Integer(i) => MValue::Int(i128::from(*i)),
            Value::Bytes(b) => MValue::Bytes(b.clone()),
            Value::Text(t) => MValue::Text(t.clone()),
            Value::Array(a) => MValue::Array(a.iter().map(MValue::from_value).collect()),
            Value::Map(m) => MValue::Map(
                m.iter()
                    .map(|(k, v)| (MValue::from_value(k), MValue::from_value(v)))
                    .collect(),
            ),
            Value::Tag(t, v) => MValue::Tag(*t, Box::new(MValue::from_value(v))),
            Value::Bool(b) => MValue::Bool(*b),
            Value::Null => MValue::Null,
            Value::Float(f) => MValue::Float(f.to_bits()),
            _ => MValue::Text("<unknown ciborium value kind>".into()),
        }
    }

    /// From a tree read by the harness CBOR reader (floats widened to f64 bits).
    pub fn from_item(it: &Item) -> MValue {
        match &it.kind {
            Kind::UInt(v) => MValue::Int(*v as i128),
            Kind::NInt(v) => MValue::Int(-1 - (*v as i128)),
            Kind::Bytes(b) => MValue::Bytes(b.clone()),
            Kind::Text(t) => MValue::Text(String::from_utf8_lossy(t).into_owned()),
            Kind::Array(a) => MValue::Array(a.iter().map(MValue::from_item).collect()),
            Kind::Map(m) => MValue::Map(
                m.iter()
                    .map(|(k, v)| (MValue::from_item(k), MValue::from_item(v)))
                    .collect(),
            ),
            Kind::Tag(t, b) => MValue::Tag(*t, Box::new(MValue::from_item(b))),
            Kind::Simple(20) => MValue::Bool(false),
            Kind::Simple(21) => MValue::Bool(true),
            Kind::Simple(_) => MValue::Null,
            Kind::Float(w, bits) => MValue::Float(crate::refcbor::float_value(*w, *bits).to_bits()),
        }
    }

    pub fn to_item(&self) -> Item {
        match self {
            MValue::Int(i) => Item::int(*i),
            MValue::Bytes(b) => Item::bytes(b),
            MValue::Text(t) => Item::text(t),
            MValue::Array(a) => Item::array(a.iter().map(|x| x.to_item()).collect()),
            MValue::Map(m) => {
                Item::map(m.iter().map(|(k, v)| (k.to_item(), v.to_item())).collect())
            }
            MValue::Tag(t, v) => Item::tag(*t, v.to_item()),
            MValue::Bool(b) => Item::bool(*b),
            MValue::Null => Item::null(),
            MValue::Float(bits) => {
                // shortest form that holds the value exactly, as coset's CBOR layer writes it
                let (w, b) = crate::refcbor::shortest_float(*bits);
                Item::new(Kind::Float(w, b))
            }
        }
    }
}

// ---------------------------------------------------------------------------------------------
// model -> coset (struct literals only)
// ---------------------------------------------------------------------------------------------

fn reg<T: EnumI64>(m: &MReg) -> coset::RegisteredLabel<T> {
    match m {
        MReg::Assigned(i) => coset::RegisteredLabel::Assigned(
            T::from_i64(*i)
                .unwrap_or_else(|| panic!("harness: palette value {} not in registry", i)),
        ),
        MReg::Text(t) => coset::RegisteredLabel::Text(t.clone()),
    }
}

fn regp<T: EnumI64 + iana::WithPrivateRange>(m: &MRegP) -> coset::RegisteredLabelWithPrivate<T> {
    match m {
        MRegP::Assigned(i) => coset::RegisteredLabelWithPrivate::Assigned(
            T::from_i64(*i)
                .unwrap_or_else(|| panic!("harness: palette value {} not in registry", i)),
        ),
        MRegP::Private(i) => coset::RegisteredLabelWithPrivate::PrivateUse(*i),
        MRegP::Text(t) => coset::RegisteredLabelWithPrivate::Text(t.clone()),
    }
}

fn un_reg<T: EnumI64>(c: &coset::RegisteredLabel<T>) -> MReg {
    match c {
        coset::RegisteredLabel::Assigned(a) => MReg::Assigned(a.to_i64()),
        coset::RegisteredLabel::Text(t) => MReg::Text(t.clone()),
    }
}

fn un_regp<T: EnumI64 + iana::WithPrivateRange>(c: &coset::RegisteredLabelWithPrivate<T>) -> MRegP {
    match c {
        coset::RegisteredLabelWithPrivate::Assigned(a) => MRegP::Assigned(a.to_i64()),
        coset::RegisteredLabelWithPrivate::PrivateUse(i) => MRegP::Private(*i),
        coset::RegisteredLabelWithPrivate::Text(t) => MRegP::Text(t.clone()),
    }
}

impl MLabel {
    pub fn to_coset(&self) -> coset::Label {
        match self {
            MLabel::Int(i) => coset::Label::Int(*i),
            MLabel::Text(t) => coset::Label::Text(t.clone()),
        }
    }
    pub fn from_coset(l: &coset::Label) -> MLabel {
        match l {
            coset::Label::Int(i) => MLabel::Int(*i),
            coset::Label::Text(t) => MLabel::Text(t.clone()),
        }
    }
    pub fn to_item(&self) -> Item {
        match self {
            MLabel::Int(i) => Item::int(*i as i128),
            MLabel::Text(t) => Item::text(t),
        }
    }
}

impl MReg {
    pub fn to_item(&self) -> Item {
        match self {
            MReg::Assigned(i) => Item::int(*i as i128),
            MReg::Text(t) => Item::text(t),
        }
    }
}

impl MRegP {
    pub fn to_item(&self) -> Item {
        match self {
            MRegP::Assigned(i) | MRegP::Private(i) => Item::int(*i as i128),
            MRegP::Text(t) => Item::text(t),
        }
    }
    pub fn alg_to_coset(&self) -> coset::Algorithm {
        regp::<iana::Algorithm>(self)
    }
}

impl MHeader {
    /// The descriptor as any decoder of its reference encoding must see it, computed by the harness
    /// alone: labels of typed fields found among the extras move into the typed fields, small
    /// bignums (tag 2 / 3 around at most 8 bytes) become plain integers.
    pub fn normalised(&self) -> MHeader {
        fn fold(v: &MValue) -> MValue {
            match v {
                MValue::Tag(t, inner) if *t == 2 || *t == 3 => {
                    if let MValue::Bytes(b) = &**inner {
                        if b.len() <= 8 {
                            let mut x: i128 = 0;
                            for y in b {
                                x = (x << 8) | *y as i128;
                            }
                            return MValue::Int(if *t == 2 { x } else { -1 - x });
                        }
                    }
                    MValue::Tag(*t, Box::new(fold(inner)))
                }
                MValue::Tag(t, inner) => MValue::Tag(*t, Box::new(fold(inner))),
                MValue::Array(a) => MValue::Array(a.iter().map(fold).collect()),
                MValue::Map(m) => MValue::Map(m.iter().map(|(k, v)| (fold(k), fold(v))).collect()),
                other => other.clone(),
            }
        }
        let bytes = crate::refcbor::encode(&self.to_item());
        let mut h = match crate::refcbor::read_exact(&bytes)
            .ok()
            .and_then(|i| MHeader::from_item(&i))
        {
            Some(h) => h,
            None => self.clone(),
        };
        for (_, v) in h.rest.iter_mut() {
            *v = fold(v);
        }
        h
    }

    /// The coset value for this descriptor.  In "decoded" mode (a per-run switch, see
    /// `set_headers_via_decode`) the value is obtained by letting coset decode the descriptor's
    /// reference encoding - how a relay that parses a header and reuses it in a new message gets
    /// its `Header` - and falls back to the struct literal if coset refuses the encoding.
    pub fn to_coset(&self) -> coset::Header {
        let mode = HEADERS_VIA_DECODE.with(|c| c.get());
        if mode != 0 {
            let bytes = crate::refcbor::encode(&self.to_item());
            if let Ok(h) = <coset::Header as coset::CborSerializable>::from_slice(&bytes) {
                // mode 2 (field-level models): only when the decoded value shows the same public
                // content as the descriptor
                if mode == 1 || MHeader::from_coset(&h) == *self {
                    return h;
                }
            }
        }
        self.to_coset_literal()
    }

    pub fn to_coset_literal(&self) -> coset::Header {
        coset::Header {
            alg: self.alg.as_ref().map(regp::<iana::Algorithm>),
            crit: self.crit.iter().map(reg::<iana::HeaderParameter>).collect(),
            content_type: self
                .content_type
                .as_ref()
                .map(reg::<iana::CoapContentFormat>),
            key_id: self.key_id.clone(),
            iv: self.iv.clone(),
            partial_iv: self.partial_iv.clone(),
            counter_signatures: self
                .counter_signatures
                .iter()
                .map(|s| s.to_coset())
                .collect(),
            rest: self
                .rest
                .iter()
                .map(|(l, v)| (l.to_coset(), v.to_value()))
                .collect(),
            ..Default::default()
        }
    }
    pub fn from_coset(h: &coset::Header) -> MHeader {
        MHeader {
            alg: h.alg.as_ref().map(un_regp),
            crit: h.crit.iter().map(un_reg).collect(),
            content_type: h.content_type.as_ref().map(un_reg),
            key_id: h.key_id.clone(),
            iv: h.iv.clone(),
            partial_iv: h.partial_iv.clone(),
            counter_signatures: h
                .counter_signatures
                .iter()
                .map(MSignature::from_coset)
                .collect(),
            rest: h
                .rest
                .iter()
                .map(|(l, v)| (MLabel::from_coset(l), MValue::from_value(v)))
                .collect(),
        }
    }
    /// Reference encoding (RFC 8152 section 3 header map, fields in label order 1..7 then extras).
    pub fn to_item(&self) -> Item {
        let mut m = Vec::new();
        if let Some(a) = &self.alg {
            m.push((Item::uint(1), a.to_item()));
        }
        if !self.crit.is_empty() {
            m.push((
                Item::uint(2),
                Item::array(self.crit.iter().map(|c| c.to_item()).collect()),
            ));
        }
        if let Some(c) = &self.content_type {
            m.push((Item::uint(3), c.to_item()));
        }
        if !self.key_id.is_empty() {
            m.push((Item::uint(4), Item::bytes(&self.key_id)));
        }
        if !self.iv.is_empty() {
            m.push((Item::uint(5), Item::bytes(&self.iv)));
        }
        if !self.partial_iv.is_empty() {
            m.push((Item::uint(6), Item::bytes(&self.partial_iv)));
        }
        if self.counter_signatures.len() == 1 {
            m.push((Item::uint(7), self.counter_signatures[0].to_item()));
        } else if self.counter_signatures.len() > 1 {
            m.push((
                Item::uint(7),
                Item::array(
                    self.counter_signatures
                        .iter()
                        .map(|s| s.to_item())
                        .collect(),
                ),
            ));
        }
        for (l, v) in &self.rest {
            m.push((l.to_item(), v.to_item()));
        }
        Item::map(m)
    }
}

impl MHeader {
    /// Read a header map from a tree produced by the harness CBOR reader (used to carry arbitrary
    /// header descriptors in traces).  Returns None for shapes the harness generators never emit.
    pub fn from_item(it: &Item) -> Option<MHeader> {
        let m = it.as_map()?;
        let mut h = MHeader::default();
        let regp = |x: &Item, private_below: i128| -> Option<MRegP> {
            match &x.kind {
                Kind::Text(t) => Some(MRegP::Text(String::from_utf8_lossy(t).into_owned())),
                _ => {
                    let i = x.as_int()?;
                    let i64v = i64::try_from(i).ok()?;
                    if i < private_below && <iana::Algorithm as EnumI64>::from_i64(i64v).is_none() {
                        Some(MRegP::Private(i64v))
                    } else {
                        Some(MRegP::Assigned(i64v))
                    }
                }
            }
        };
        let reg = |x: &Item| -> Option<MReg> {
            match &x.kind {
                Kind::Text(t) => Some(MReg::Text(String::from_utf8_lossy(t).into_owned())),
                _ => Some(MReg::Assigned(i64::try_from(x.as_int()?).ok()?)),
            }
        };
        for (k, v) in m {
            match k.as_int() {
                Some(1) => h.alg = Some(regp(v, -65536)?),
                Some(2) => h.crit = v.as_array()?.iter().map(reg).collect::<Option<Vec<_>>>()?,
                Some(3) => h.content_type = Some(reg(v)?),
                Some(4) => h.key_id = v.as_bytes()?.to_vec(),
                Some(5) => h.iv = v.as_bytes()?.to_vec(),
                Some(6) => h.partial_iv = v.as_bytes()?.to_vec(),
                Some(7) => {
                    let a = v.as_array()?;
                    if matches!(a.first().map(|x| &x.kind), Some(Kind::Bytes(_))) {
                        h.counter_signatures.push(MSignature::from_item(v)?);
                    } else {
                        for sg in a {
                            h.counter_signatures.push(MSignature::from_item(sg)?);
                        }
                    }
                }
                _ => {
                    let l = match &k.kind {
                        Kind::Text(t) => MLabel::Text(String::from_utf8_lossy(t).into_owned()),
                        _ => MLabel::Int(i64::try_from(k.as_int()?).ok()?),
                    };
                    h.rest.push((l, MValue::from_item(v)));
                }
            }
        }
        Some(h)
    }
}

impl MSignature {
    pub fn from_item(it: &Item) -> Option<MSignature> {
        let a = it.as_array()?;
        if a.len() != 3 {
            return None;
        }
        let pb = a[0].as_bytes()?;
        let ph = if pb.is_empty() {
            MHeader::default()
        } else {
            MHeader::from_item(&crate::refcbor::read_exact(pb).ok()?)?
        };
        Some(MSignature {
            protected: MProtected::built(ph),
            unprotected: MHeader::from_item(&a[1])?,
            signature: a[2].as_bytes()?.to_vec(),
        })
    }
}

impl MProtected {
    pub fn to_coset(&self) -> coset::ProtectedHeader {
        coset::ProtectedHeader {
            original_data: self.original.clone(),
            header: self.header.to_coset(),
        }
    }
    pub fn from_coset(p: &coset::ProtectedHeader) -> MProtected {
        MProtected {
            original: p.original_data.clone(),
            header: MHeader::from_coset(&p.header),
        }
    }
    /// Reference bytes of the protected bstr content.
    pub fn ref_bytes(&self) -> Vec<u8> {
        if let Some(o) = &self.original {
            o.clone()
        } else if self.header.is_empty() {
            vec![]
        } else {
            crate::refcbor::encode(&self.header.to_item())
        }
    }
    pub fn to_item(&self) -> Item {
        Item::bytes(&self.ref_bytes())
    }
}

impl MSignature {
    pub fn to_coset(&self) -> coset::CoseSignature {
        coset::CoseSignature {
            protected: self.protected.to_coset(),
            unprotected: self.unprotected.to_coset(),
            signature: self.signature.clone(),
            ..Default::default()
        }
    }
    pub fn from_coset(s: &coset::CoseSignature) -> MSignature {
        MSignature {
            protected: MProtected::from_coset(&s.protected),
            unprotected: MHeader::from_coset(&s.unprotected),
            signature: s.signature.clone(),
        }
    }
    pub fn to_item(&self) -> Item {
        Item::array(vec![
            self.protected.to_item(),
            self.unprotected.to_item(),
            Item::bytes(&self.signature),
        ])
    }
}

fn opt_bytes_item(b: &Option<Vec<u8>>) -> Item {
    match b {
        Some(b) => Item::bytes(b),
        None => Item::null(),
    }
}

impl MSign {
    pub fn to_coset(&self) -> coset::CoseSign {
        coset::CoseSign {
            protected: self.protected.to_coset(),
            unprotected: self.unprotected.to_coset(),
            payload: self.payload.clone(),
            signatures: self.signatures.iter().map(|s| s.to_coset()).collect(),
            ..Default::default()
        }
    }
    pub fn from_coset(s: &coset::CoseSign) -> MSign {
        MSign {
            protected: MProtected::from_coset(&s.protected),
            unprotected: MHeader::from_coset(&s.unprotected),
            payload: s.payload.clone(),
            signatures: s.signatures.iter().map(MSignature::from_coset).collect(),
        }
    }
    pub fn to_item(&self) -> Item {
        Item::array(vec![
            self.protected.to_item(),
            self.unprotected.to_item(),
            opt_bytes_item(&self.payload),
            Item::array(self.signatures.iter().map(|s| s.to_item()).collect()),
        ])
    }
}

impl MSign1 {
    pub fn to_coset(&self) -> coset::CoseSign1 {
        coset::CoseSign1 {
            protected: self.protected.to_coset(),
            unprotected: self.unprotected.to_coset(),
            payload: self.payload.clone(),
            signature: self.signature.clone(),
            ..Default::default()
        }
    }
    pub fn from_coset(s: &coset::CoseSign1) -> MSign1 {
        MSign1 {
            protected: MProtected::from_coset(&s.protected),
            unprotected: MHeader::from_coset(&s.unprotected),
            payload: s.payload.clone(),
            signature: s.signature.clone(),
        }
    }
    pub fn to_item(&self) -> Item {
        Item::array(vec![
            self.protected.to_item(),
            self.unprotected.to_item(),
            opt_bytes_item(&self.payload),
            Item::bytes(&self.signature),
        ])
    }
}

impl MRecipient {
    pub fn to_coset(&self) -> coset::CoseRecipient {
        coset::CoseRecipient {
            protected: self.protected.to_coset(),
            unprotected: self.unprotected.to_coset(),
            ciphertext: self.ciphertext.clone(),
            recipients: self.recipients.iter().map(|r| r.to_coset()).collect(),
            ..Default::default()
        }
    }
    pub fn from_coset(r: &coset::CoseRecipient) -> MRecipient {
        MRecipient {
            protected: MProtected::from_coset(&r.protected),
            unprotected: MHeader::from_coset(&r.unprotected),
            ciphertext: r.ciphertext.clone(),
            recipients: r.recipients.iter().map(MRecipient::from_coset).collect(),
        }
    }
    pub fn to_item(&self) -> Item {
        let mut v = vec![
            self.protected.to_item(),
            self.unprotected.to_item(),
            opt_bytes_item(&self.ciphertext),
        ];
        if !self.recipients.is_empty() {
            v.push(Item::array(
                self.recipients.iter().map(|r| r.to_item()).collect(),
            ));
        }
        Item::array(v)
    }
}

impl MEncrypt {
    pub fn to_coset(&self) -> coset::CoseEncrypt {
        coset::CoseEncrypt {
            protected: self.protected.to_coset(),
            unprotected: self.unprotected.to_coset(),
            ciphertext: self.ciphertext.clone(),
            recipients: self.recipients.iter().map(|r| r.to_coset()).collect(),
            ..Default::default()
        }
    }
    pub fn from_coset(r: &coset::CoseEncrypt) -> MEncrypt {
        MEncrypt {
            protected: MProtected::from_coset(&r.protected),
            unprotected: MHeader::from_coset(&r.unprotected),
            ciphertext: r.ciphertext.clone(),
            recipients: r.recipients.iter().map(MRecipient::from_coset).collect(),
        }
    }
    pub fn to_item(&self) -> Item {
        Item::array(vec![
            self.protected.to_item(),
            self.unprotected.to_item(),
            opt_bytes_item(&self.ciphertext),
            Item::array(self.recipients.iter().map(|r| r.to_item()).collect()),
        ])
    }
}

impl MEncrypt0 {
    pub fn to_coset(&self) -> coset::CoseEncrypt0 {
        coset::CoseEncrypt0 {
            protected: self.protected.to_coset(),
            unprotected: self.unprotected.to_coset(),
            ciphertext: self.ciphertext.clone(),
            ..Default::default()
        }
    }
    pub fn from_coset(r: &coset::CoseEncrypt0) -> MEncrypt0 {
        MEncrypt0 {
            protected: MProtected::from_coset(&r.protected),
            unprotected: MHeader::from_coset(&r.unprotected),
            ciphertext: r.ciphertext.clone(),
        }
    }
    pub fn to_item(&self) -> Item {
        Item::array(vec![
            self.protected.to_item(),
            self.unprotected.to_item(),
            opt_bytes_item(&self.ciphertext),
        ])
    }
}

impl MMac {
    pub fn to_coset(&self) -> coset::CoseMac {
        coset::CoseMac {
            protected: self.protected.to_coset(),
            unprotected: self.unprotected.to_coset(),
            payload: self.payload.clone(),
            tag: self.tag.clone(),
            recipients: self.recipients.iter().map(|r| r.to_coset()).collect(),
            ..Default::default()
        }
    }
    pub fn from_coset(r: &coset::CoseMac) -> MMac {
        MMac {
            protected: MProtected::from_coset(&r.protected),
            unprotected: MHeader::from_coset(&r.unprotected),
            payload: r.payload.clone(),
            tag: r.tag.clone(),
            recipients: r.recipients.iter().map(MRecipient::from_coset).collect(),
        }
    }
    pub fn to_item(&self) -> Item {
        Item::array(vec![
            self.protected.to_item(),
            self.unprotected.to_item(),
            opt_bytes_item(&self.payload),
            Item::bytes(&self.tag),
            Item::array(self.recipients.iter().map(|r| r.to_item()).collect()),
        ])
    }
}

impl MMac0 {
    pub fn to_coset(&self) -> coset::CoseMac0 {
        coset::CoseMac0 {
            protected: self.protected.to_coset(),
            unprotected: self.unprotected.to_coset(),
            payload: self.payload.clone(),
            tag: self.tag.clone(),
            ..Default::default()
        }
    }
    pub fn from_coset(r: &coset::CoseMac0) -> MMac0 {
        MMac0 {
            protected: MProtected::from_coset(&r.protected),
            unprotected: MHeader::from_coset(&r.unprotected),
            payload: r.payload.clone(),
            tag: r.tag.clone(),
        }
    }
    pub fn to_item(&self) -> Item {
        Item::array(vec![
            self.protected.to_item(),
            self.unprotected.to_item(),
            opt_bytes_item(&self.payload),
            Item::bytes(&self.tag),
        ])
    }
}

impl MKey {
    pub fn to_coset(&self) -> coset::CoseKey {
        coset::CoseKey {
            kty: reg::<iana::KeyType>(&self.kty),
            key_id: self.key_id.clone(),
            alg: self.alg.as_ref().map(regp::<iana::Algorithm>),
            key_ops: self.key_ops.iter().map(reg::<iana::KeyOperation>).collect(),
            base_iv: self.base_iv.clone(),
            params: self
                .params
                .iter()
                .map(|(l, v)| (l.to_coset(), v.to_value()))
                .collect(),
            ..Default::default()
        }
    }
    pub fn from_coset(k: &coset::CoseKey) -> MKey {
        MKey {
            kty: un_reg(&k.kty),
            key_id: k.key_id.clone(),
            alg: k.alg.as_ref().map(un_regp),
            key_ops: k.key_ops.iter().map(un_reg).collect(),
            base_iv: k.base_iv.clone(),
            params: k
                .params
                .iter()
                .map(|(l, v)| (MLabel::from_coset(l), MValue::from_value(v)))
                .collect(),
        }
    }
}

impl MTimestamp {
    pub fn to_coset(&self) -> coset::cwt::Timestamp {
        match self {
            MTimestamp::Whole(i) => coset::cwt::Timestamp::WholeSeconds(*i),
            MTimestamp::Frac(b) => coset::cwt::Timestamp::FractionalSeconds(f64::from_bits(*b)),
        }
    }
    pub fn from_coset(t: &coset::cwt::Timestamp) -> MTimestamp {
        match t {
            coset::cwt::Timestamp::WholeSeconds(i) => MTimestamp::Whole(*i),
            coset::cwt::Timestamp::FractionalSeconds(f) => MTimestamp::Frac(f.to_bits()),
        }
    }
}

impl MClaims {
    pub fn to_coset(&self) -> coset::cwt::ClaimsSet {
        coset::cwt::ClaimsSet {
            issuer: self.issuer.clone(),
            subject: self.subject.clone(),
            audience: self.audience.clone(),
            expiration_time: self.expiration_time.as_ref().map(|t| t.to_coset()),
            not_before: self.not_before.as_ref().map(|t| t.to_coset()),
            issued_at: self.issued_at.as_ref().map(|t| t.to_coset()),
            cwt_id: self.cwt_id.clone(),
            rest: self
                .rest
                .iter()
                .map(|(n, v)| (regp::<iana::CwtClaimName>(n), v.to_value()))
                .collect(),
            ..Default::default()
        }
    }
    pub fn from_coset(c: &coset::cwt::ClaimsSet) -> MClaims {
        MClaims {
            issuer: c.issuer.clone(),
            subject: c.subject.clone(),
            audience: c.audience.clone(),
            expiration_time: c.expiration_time.as_ref().map(MTimestamp::from_coset),
            not_before: c.not_before.as_ref().map(MTimestamp::from_coset),
            issued_at: c.issued_at.as_ref().map(MTimestamp::from_coset),
            cwt_id: c.cwt_id.clone(),
            rest: c
                .rest
                .iter()
                .map(|(n, v)| (un_regp(n), MValue::from_value(v)))
                .collect(),
        }
    }
}

impl MNonce {
    pub fn to_coset(&self) -> coset::Nonce {
        match self {
            MNonce::Bytes(b) => coset::Nonce::Bytes(b.clone()),
            MNonce::Integer(i) => coset::Nonce::Integer(*i),
        }
    }
    pub fn from_coset(n: &coset::Nonce) -> MNonce {
        match n {
            coset::Nonce::Bytes(b) => MNonce::Bytes(b.clone()),
            coset::Nonce::Integer(i) => MNonce::Integer(*i),
        }
    }
}

impl MPartyInfo {
    pub fn to_coset(&self) -> coset::PartyInfo {
        coset::PartyInfo {
            identity: self.identity.clone(),
            nonce: self.nonce.as_ref().map(|n| n.to_coset()),
            other: self.other.clone(),
            ..Default::default()
        }
    }
    pub fn from_coset(p: &coset::PartyInfo) -> MPartyInfo {
        MPartyInfo {
            identity: p.identity.clone(),
            nonce: p.nonce.as_ref().map(MNonce::from_coset),
            other: p.other.clone(),
        }
    }
    pub fn to_item(&self) -> Item {
        Item::array(vec![
            opt_bytes_item(&self.identity),
            match &self.nonce {
                None => Item::null(),
                Some(MNonce::Bytes(b)) => Item::bytes(b),
                Some(MNonce::Integer(i)) => Item::int(*i as i128),
            },
            opt_bytes_item(&self.other),
        ])
    }
    pub fn from_item(it: &Item) -> Option<MPartyInfo> {
        let a = it.as_array()?;
        if a.len() != 3 {
            return None;
        }
        let ob = |x: &Item| -> Option<Option<Vec<u8>>> {
            if x.is_null() {
                Some(None)
            } else {
                Some(Some(x.as_bytes()?.to_vec()))
            }
        };
        Some(MPartyInfo {
            identity: ob(&a[0])?,
            nonce: if a[1].is_null() {
                None
            } else if let Some(b) = a[1].as_bytes() {
                Some(MNonce::Bytes(b.to_vec()))
            } else {
                Some(MNonce::Integer(i64::try_from(a[1].as_int()?).ok()?))
            },
            other: ob(&a[2])?,
        })
    }
}

impl MSuppPubInfo {
    pub fn to_coset(&self) -> coset::SuppPubInfo {
        coset::SuppPubInfo {
            key_data_length: self.key_data_length,
            protected: self.protected.to_coset(),
            other: self.other.clone(),
            ..Default::default()
        }
    }
    pub fn from_coset(p: &coset::SuppPubInfo) -> MSuppPubInfo {
        MSuppPubInfo {
            key_data_length: p.key_data_length,
            protected: MProtected::from_coset(&p.protected),
            other: p.other.clone(),
        }
    }
    pub fn to_item(&self) -> Item {
        let mut v = vec![Item::uint(self.key_data_length), self.protected.to_item()];
        if let Some(o) = &self.other {
            v.push(Item::bytes(o));
        }
        Item::array(v)
    }
}

impl MSuppPubInfo {
    pub fn from_item(it: &Item) -> Option<MSuppPubInfo> {
        let a = it.as_array()?;
        if a.len() != 2 && a.len() != 3 {
            return None;
        }
        let pb = a[1].as_bytes()?;
        let ph = if pb.is_empty() {
            MHeader::default()
        } else {
            MHeader::from_item(&crate::refcbor::read_exact(pb).ok()?)?
        };
        Some(MSuppPubInfo {
            key_data_length: u64::try_from(a[0].as_int()?).ok()?,
            protected: MProtected::built(ph),
            other: if a.len() == 3 {
                Some(a[2].as_bytes()?.to_vec())
            } else {
                None
            },
        })
    }
}

impl MKdf {
    pub fn to_item(&self) -> Item {
        let mut v = vec![
            self.algorithm_id.to_item(),
            self.party_u_info.to_item(),
            self.party_v_info.to_item(),
            self.supp_pub_info.to_item(),
        ];
        for p in &self.supp_priv_info {
            v.push(Item::bytes(p));
        }
        Item::array(v)
    }
}

impl MKey {
    /// Reference encoding (RFC 8152 section 7 COSE_Key map; typed labels 1..5 then extras).
    pub fn to_item(&self) -> Item {
        let mut m = vec![(Item::uint(1), self.kty.to_item())];
        if !self.key_id.is_empty() {
            m.push((Item::uint(2), Item::bytes(&self.key_id)));
        }
        if let Some(a) = &self.alg {
            m.push((Item::uint(3), a.to_item()));
        }
        if !self.key_ops.is_empty() {
            m.push((
                Item::uint(4),
                Item::array(self.key_ops.iter().map(|o| o.to_item()).collect()),
            ));
        }
        if !self.base_iv.is_empty() {
            m.push((Item::uint(5), Item::bytes(&self.base_iv)));
        }
        for (l, v) in &self.params {
            m.push((l.to_item(), v.to_item()));
        }
        Item::map(m)
    }
}

impl MTimestamp {
    pub fn to_item(&self) -> Item {
        match self {
            MTimestamp::Whole(i) => Item::int(*i as i128),
            MTimestamp::Frac(b) => {
                let (w, b) = crate::refcbor::shortest_float(*b);
                Item::new(Kind::Float(w, b))
            }
        }
    }
}

impl MClaims {
    /// Reference encoding (RFC 8392 claims map; claims 1..7 then the rest).
    pub fn to_item(&self) -> Item {
        let mut m = Vec::new();
        if let Some(x) = &self.issuer {
            m.push((Item::uint(1), Item::text(x)));
        }
        if let Some(x) = &self.subject {
            m.push((Item::uint(2), Item::text(x)));
        }
        if let Some(x) = &self.audience {
            m.push((Item::uint(3), Item::text(x)));
        }
        if let Some(x) = &self.expiration_time {
            m.push((Item::uint(4), x.to_item()));
        }
        if let Some(x) = &self.not_before {
            m.push((Item::uint(5), x.to_item()));
        }
        if let Some(x) = &self.issued_at {
            m.push((Item::uint(6), x.to_item()));
        }
        if let Some(x) = &self.cwt_id {
            m.push((Item::uint(7), Item::bytes(x)));
        }
        for (n, v) in &self.rest {
            m.push((n.to_item(), v.to_item()));
        }
        Item::map(m)
    }
}

/// Reference construction of the structures of RFC 8152 sections 4.4, 6.3 and 5.3 from the wire
/// bytes of the protected headers (retained bytes where a header has them).
pub fn ref_sig_structure(
    ctx: &str,
    body: &MProtected,
    sign: Option<&MProtected>,
    aad: &[u8],
    payload: &[u8],
) -> Vec<u8> {
    let mut a = vec![Item::text(ctx), body.to_item()];
    if let Some(s) = sign {
        a.push(s.to_item());
    }
    a.push(Item::bytes(aad));
    a.push(Item::bytes(payload));
    crate::refcbor::encode(&Item::array(a))
}
pub fn ref_mac_structure(ctx: &str, body: &MProtected, aad: &[u8], payload: &[u8]) -> Vec<u8> {
    crate::refcbor::encode(&Item::array(vec![
        Item::text(ctx),
        body.to_item(),
        Item::bytes(aad),
        Item::bytes(payload),
    ]))
}
pub fn ref_enc_structure(ctx: &str, body: &MProtected, aad: &[u8]) -> Vec<u8> {
    crate::refcbor::encode(&Item::array(vec![
        Item::text(ctx),
        body.to_item(),
        Item::bytes(aad),
    ]))
}
