#!/bin/sh
# Sensitivity probe: apply one property-breaking patch to /repo, run one check, expect exit 1,
# and always restore /repo afterwards.
# usage: tools/sensitivity.sh <patch-file> <ID> [quick|thorough] [extra cosim args]
# exit 0 = the check caught the mutant (exit 1 from the check), 1 = missed, 2 = error
PATCH="$(realpath "$1")"; ID="$2"; TIER="${3:-quick}"
[ -f "$PATCH" ] || { echo "no such patch $PATCH" >&2; exit 2; }
if [ -n "$(git -C /repo status --porcelain --untracked-files=no)" ]; then
    echo "/repo working tree is not clean; refusing" >&2; exit 2
fi
restore() { git -C /repo checkout -- . ; }
trap restore EXIT INT TERM
git -C /repo apply "$PATCH" || { echo "patch does not apply" >&2; exit 2; }
shift 3 2>/dev/null || shift $#
out=$(/verif/check "$ID" "$TIER" --no-evidence "$@" 2>&1); rc=$?
echo "$out" | grep -E "^(VIOLATION|KNOWN-FINDING|  invariant|harness error|cosim .* done)" | head -12
case $rc in
    1) echo "CAUGHT $(basename "$PATCH") by $ID ($TIER)"; exit 0 ;;
    0) echo "MISSED $(basename "$PATCH") by $ID ($TIER)"; exit 1 ;;
    *) echo "ERROR rc=$rc $(basename "$PATCH") by $ID ($TIER)"; echo "$out" | tail -5; exit 2 ;;
esac
