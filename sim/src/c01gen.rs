//! C01 wire: byte-level faults, Byzantine-peer faults (re-encode, subtree substitution, nesting
//! along every decoder recursion cycle of DESIGN.md Appendix D).  Everything here produces the
//! exact bytes to deliver; the trace stores those bytes.

use crate::refcbor::{self, Item, Kind, Seeded};
use crate::rng::Rng;
use crate::traffic::*;

pub struct Case {
    pub bytes: Vec<u8>,
    /// fault kinds that actually changed the bytes, in order
    pub faults: Vec<String>,
    pub base_type: String,
    /// nesting depth for nest() cases
    pub depth: Option<usize>,
}

fn head(major: u8, n: u64) -> Vec<u8> {
    refcbor::head(major, n)
}

// ------------------------------------------------------------------------------------------
// nesting axes (linear-time construction, outermost first)
// ------------------------------------------------------------------------------------------

/// Axis B: counter-signature inside the *protected* bstr, d levels.  Returns a COSE_Signature.
pub fn nest_protected_countersig(d: usize, innermost: &[u8]) -> Vec<u8> {
    // len[0] = innermost; level i wraps level i-1: 83 bstr( a1 07 <prev> ) a0 40
    let mut lens = Vec::with_capacity(d + 1);
    lens.push(innermost.len());
    for i in 0..d {
        let inner = lens[i] + 2;
        lens.push(1 + head(2, inner as u64).len() + inner + 2);
    }
    let mut out = Vec::with_capacity(lens[d]);
    for i in (0..d).rev() {
        out.push(0x83);
        out.extend(head(2, (lens[i] + 2) as u64));
        out.extend([0xa1, 0x07]);
    }
    out.extend_from_slice(innermost);
    for _ in 0..d {
        out.extend([0xa0, 0x40]);
    }
    out
}

/// Axis A: counter-signature inside the *unprotected* header, d levels.  Returns a COSE_Signature.
pub fn nest_unprotected_countersig(d: usize, innermost: &[u8]) -> Vec<u8> {
    let mut out = Vec::new();
    for _ in 0..d {
        out.extend([0x83, 0x40, 0xa1, 0x07]);
    }
    out.extend_from_slice(innermost);
    for _ in 0..d {
        out.push(0x40);
    }
    out
}

/// Axis A': array-of-counter-signatures form ([+COSE_Signature]) at every level.
pub fn nest_unprotected_countersig_array(d: usize, innermost: &[u8]) -> Vec<u8> {
    let mut out = Vec::new();
    for _ in 0..d {
        out.extend([0x83, 0x40, 0xa1, 0x07, 0x82]);
    }
    out.extend_from_slice(innermost);
    for _ in 0..d {
        // second signature of the array, then the enclosing signature's own signature bstr
        out.extend([0x83, 0x40, 0xa0, 0x40, 0x40]);
    }
    out
}

/// Zig-zag through the counter-signature cycle: each level is one hop, outermost first.
/// Hop 0 = counter signature in the unprotected header, 1 = in the protected bstr,
/// 2 = unprotected, array form, 3 = protected, array form.  Returns a COSE_Signature.
pub fn nest_zigzag(hops: &[u8], innermost: &[u8]) -> Vec<u8> {
    let d = hops.len();
    // lengths inside-out: lens[d] = innermost, lens[i] = length of the signature at level i
    let mut lens = vec![0usize; d + 1];
    lens[d] = innermost.len();
    for i in (0..d).rev() {
        let inner = lens[i + 1];
        lens[i] = match hops[i] {
            0 => 4 + inner + 1,
            1 => 1 + head(2, (inner + 2) as u64).len() + 2 + inner + 2,
            2 => 5 + inner + 4 + 1,
            _ => 1 + head(2, (inner + 7) as u64).len() + 3 + inner + 4 + 2,
        };
    }
    let mut out = Vec::with_capacity(lens[0]);
    for i in 0..d {
        let inner = lens[i + 1];
        match hops[i] {
            0 => out.extend([0x83, 0x40, 0xa1, 0x07]),
            1 => {
                out.push(0x83);
                out.extend(head(2, (inner + 2) as u64));
                out.extend([0xa1, 0x07]);
            }
            2 => out.extend([0x83, 0x40, 0xa1, 0x07, 0x82]),
            _ => {
                out.push(0x83);
                out.extend(head(2, (inner + 7) as u64));
                out.extend([0xa1, 0x07, 0x82]);
            }
        }
    }
    out.extend_from_slice(innermost);
    for i in (0..d).rev() {
        match hops[i] {
            0 => out.push(0x40),
            1 => out.extend([0xa0, 0x40]),
            2 => out.extend([0x83, 0x40, 0xa0, 0x40, 0x40]),
            _ => out.extend([0x83, 0x40, 0xa0, 0x40, 0xa0, 0x40]),
        }
    }
    debug_assert_eq!(out.len(), lens[0]);
    out
}

/// Axis C: recipient in recipient, d levels.  Returns a COSE_recipient.
pub fn nest_recipients(d: usize, innermost: &[u8]) -> Vec<u8> {
    let mut out = Vec::new();
    for _ in 0..d {
        out.extend([0x84, 0x40, 0xa0, 0xf6, 0x81]);
    }
    out.extend_from_slice(innermost);
    out
}

/// Axis F: plain CBOR nesting of one kind, d levels, around `leaf`.
pub fn nest_cbor(kind: usize, d: usize, leaf: &[u8]) -> Vec<u8> {
    let mut out = Vec::new();
    match kind {
        0 => {
            out.resize(d, 0x81);
            out.extend_from_slice(leaf);
        }
        1 => {
            for _ in 0..d {
                out.extend([0xa1, 0x00]);
            }
            out.extend_from_slice(leaf);
        }
        2 => {
            // maps nested in key position: a1 (a1 (.. leaf ..) 00) 00
            out.resize(d, 0xa1);
            out.extend_from_slice(leaf);
            out.resize(out.len() + d, 0x00);
        }
        3 => {
            out.resize(d, 0xc1);
            out.extend_from_slice(leaf);
        }
        4 => {
            out.resize(d, 0x9f);
            out.extend_from_slice(leaf);
            out.resize(out.len() + d, 0xff);
        }
        5 => {
            out.resize(d, 0xbf);
            // indefinite map: key 00, value nested
            let mut o2 = Vec::new();
            for _ in 0..d {
                o2.extend([0xbf, 0x00]);
            }
            o2.extend_from_slice(leaf);
            o2.resize(o2.len() + d, 0xff);
            return o2;
        }
        6 => {
            // bignum tags
            for i in 0..d {
                out.push(if i % 2 == 0 { 0xc2 } else { 0xc3 });
            }
            out.extend_from_slice(leaf);
        }
        7 => {
            // nested indefinite text (malformed per RFC 8949, accepted by some parsers)
            out.resize(d, 0x7f);
            out.extend([0x61, 0x61]);
            out.resize(out.len() + d, 0xff);
        }
        _ => {
            // nested indefinite bytes
            out.resize(d, 0x5f);
            out.extend([0x41, 0x00]);
            out.resize(out.len() + d, 0xff);
        }
    }
    out
}

pub const NEST_KINDS: &[&str] = &[
    "nest(protected-countersig)",
    "nest(unprotected-countersig)",
    "nest(unprotected-countersig-array)",
    "nest(recipients)",
    "nest(cbor-array)",
    "nest(cbor-map-value)",
    "nest(cbor-map-key)",
    "nest(cbor-tag)",
    "nest(cbor-indef-array)",
    "nest(cbor-indef-map)",
    "nest(cbor-bignum-tag)",
    "nest(cbor-indef-text)",
    "nest(cbor-indef-bytes)",
    "nest(mixture)",
    "nest(kdf-supp-protected)",
    "nest(wide-siblings)",
    "nest(zigzag-countersig)",
    "nest(bstr-chain)",
];

/// Wrap a COSE_Signature as a counter-signature in a header map.
fn hdr_with_countersig(sig: &[u8]) -> Vec<u8> {
    let mut h = vec![0xa1, 0x07];
    h.extend_from_slice(sig);
    h
}

fn bstr(content: &[u8]) -> Vec<u8> {
    let mut o = head(2, content.len() as u64);
    o.extend_from_slice(content);
    o
}

/// Place a header map (bytes) into a carrier structure, in the protected or unprotected slot.
fn carry_header(rng: &mut Rng, hdr: &[u8]) -> (Vec<u8>, &'static str) {
    let protected = rng.bool();
    let (p, u) = if protected {
        (bstr(hdr), vec![0xa0])
    } else {
        (vec![0x40], hdr.to_vec())
    };
    let mut o = Vec::new();
    let which = rng.below(10);
    match which {
        0 => return (hdr.to_vec(), "Header"),
        1 => {
            o.push(0x83);
            o.extend(&p);
            o.extend(&u);
            o.push(0x40);
            (o, "CoseSignature")
        }
        2 => {
            o.push(0x84);
            o.extend(&p);
            o.extend(&u);
            o.extend([0xf6, 0x40]);
            (o, "CoseSign1")
        }
        3 => {
            o.push(0x84);
            o.extend(&p);
            o.extend(&u);
            o.extend([0x41, 0x00, 0x80]);
            (o, "CoseSign")
        }
        4 => {
            o.push(0x85);
            o.extend(&p);
            o.extend(&u);
            o.extend([0x41, 0x00, 0x40, 0x80]);
            (o, "CoseMac")
        }
        5 => {
            o.push(0x83);
            o.extend(&p);
            o.extend(&u);
            o.push(0xf6);
            (o, "CoseEncrypt0")
        }
        6 => {
            // as the signer of a COSE_Sign
            o.extend([0x84, 0x40, 0xa0, 0xf6, 0x81, 0x83]);
            o.extend(&p);
            o.extend(&u);
            o.push(0x40);
            (o, "CoseSign")
        }
        7 => {
            // as a recipient of a COSE_Encrypt
            o.extend([0x84, 0x40, 0xa0, 0xf6, 0x81, 0x83]);
            o.extend(&p);
            o.extend(&u);
            o.push(0xf6);
            (o, "CoseEncrypt")
        }
        8 => {
            // SuppPubInfo.protected (always the bstr form)
            o.extend([0x82, 0x18, 0x80]);
            o.extend(bstr(hdr));
            (o, "SuppPubInfo")
        }
        _ => {
            // COSE_KDF_Context with the header in SuppPubInfo.protected
            o.extend([
                0x84, 0x01, 0x83, 0xf6, 0xf6, 0xf6, 0x83, 0xf6, 0xf6, 0xf6, 0x82, 0x18, 0x80,
            ]);
            o.extend(bstr(hdr));
            (o, "CoseKdfContext")
        }
    }
}

/// Place an arbitrary CBOR value where coset keeps it as `Value`.
fn carry_value(rng: &mut Rng, val: &[u8]) -> (Vec<u8>, &'static str) {
    let mut o = Vec::new();
    match rng.below(5) {
        0 => (val.to_vec(), "Value"),
        1 => {
            // header extra parameter
            o.extend([0xa1, 0x18, 0x63]);
            o.extend_from_slice(val);
            carry_header(rng, &o)
        }
        2 => {
            // key parameter
            o.extend([0xa2, 0x01, 0x01, 0x20]);
            o.extend_from_slice(val);
            (o, "CoseKey")
        }
        3 => {
            // claim value
            o.extend([0xa1, 0x18, 0x63]);
            o.extend_from_slice(val);
            (o, "ClaimsSet")
        }
        _ => {
            // key inside a key set
            o.extend([0x81, 0xa2, 0x01, 0x01, 0x20]);
            o.extend_from_slice(val);
            (o, "CoseKeySet")
        }
    }
}

/// Wide rather than deep: n siblings (signers, recipients, keys, extra parameters, critical
/// labels, counter signatures, supplementary strings, claims).  `full` fills the whole size cap.
/// Position of the i-th written entry among n distinct labels: ascending, descending, a fixed
/// pseudo-random permutation, or alternating from both ends - the order in which a sender lists
/// distinct labels is the sender's choice.
fn ordered(ord: usize, i: usize, n: usize) -> usize {
    match ord {
        0 => i,
        1 => n - 1 - i,
        2 => ((i as u64 * 1_000_003u64) % n as u64) as usize,
        _ => {
            if i % 2 == 0 {
                i / 2
            } else {
                n - 1 - i / 2
            }
        }
    }
}

pub fn gen_wide(rng: &mut Rng, cap: usize, full: bool) -> (Vec<u8>, &'static str) {
    let sig0: &[u8] = &[0x83, 0x40, 0xa0, 0x40];
    let rcpt0: &[u8] = &[0x83, 0x40, 0xa0, 0xf6];

    // wide rather than deep: many siblings (signers, recipients, keys, extra parameters)
    // n items; the per-item size differs per shape, each arm clamps n to what fits into `cap`
    let n = if full {
        cap
    } else {
        rng.log_uniform(1, cap.max(2) as u64) as usize
    };
    match rng.below(13) {
        11 | 12 => {
            // a header / key / claims map with n keys that are NOT labels: floats (with NaN and
            // infinities among them), byte strings, arrays, booleans - rejected, but only after
            // whatever the decoder does with the key list
            let n = n.min(cap / 5).clamp(1, 100_000);
            let floats_only = rng.bool();
            let mut o = head(5, n as u64);
            // per-entry draws come from a fork, so that the draws AFTER the loop (the carrier)
            // do not depend on n: the scaling probe generates the same shape at two sizes
            let mut er = Rng::from_u64(rng.next_u64());
            for i in 0..n {
                match if floats_only { 0 } else { er.below(5) } {
                    0 => {
                        let bits: u16 = match i % 11 {
                            3 => 0x7e00,
                            7 => 0x7c00,
                            9 => 0xfe01,
                            _ => 0x3c00u16.wrapping_add((i as u16).wrapping_mul(13)) & 0x7bff,
                        };
                        o.push(0xf9);
                        o.extend(bits.to_be_bytes());
                    }
                    1 => o.extend([0x41, i as u8]),
                    2 => o.extend([0x81, 0x00]),
                    3 => o.push(if i % 2 == 0 { 0xf4 } else { 0xf6 }),
                    _ => o.extend(head(1, i as u64)),
                }
                o.push(0x00);
            }
            match rng.below(3) {
                0 => carry_header(rng, &o),
                1 => (o, "ClaimsSet"),
                _ => (o, "CoseKey"),
            }
        }
        8 | 9 | 10 => {
            // n distinct TEXT labels (3 characters each) in a header / claims set / key
            let n = n.min(cap / 6).min(400_000);
            let which = rng.below(3);
            let mut o = Vec::new();
            if which == 2 {
                o.extend(head(5, n as u64 + 1));
                o.extend([0x01, 0x01]);
            } else {
                o.extend(head(5, n as u64));
            }
            let ord = rng.below(4);
            for j in 0..n {
                let i = ordered(ord, j, n);
                let c = |k: usize| b'a' + ((i / 26usize.pow(k as u32)) % 26) as u8;
                o.extend([0x64, c(3), c(2), c(1), c(0), 0x00]);
            }
            match which {
                0 => carry_header(rng, &o),
                1 => (o, "ClaimsSet"),
                _ => (o, "CoseKey"),
            }
        }
        4 => {
            // array of n counter signatures in a header
            let n = n.min(cap / 5);
            let mut o = vec![0xa1, 0x07];
            o.extend(head(4, n.max(2) as u64));
            for _ in 0..n.max(2) {
                o.extend_from_slice(sig0);
            }
            carry_header(rng, &o)
        }
        5 => {
            // n critical labels
            let n = n.min(cap.saturating_sub(8)).max(1);
            let mut o = vec![0xa1, 0x02];
            o.extend(head(4, n as u64));
            for i in 0..n {
                o.push(if i % 2 == 0 { 0x01 } else { 0x60 });
            }
            carry_header(rng, &o)
        }
        6 => {
            // KDF context with n supplementary private info strings
            let n = n.min(cap.saturating_sub(24)).max(1);
            let mut o = head(4, 4 + n as u64);
            o.extend([
                0x01, 0x83, 0xf6, 0xf6, 0xf6, 0x83, 0xf6, 0xf6, 0xf6, 0x82, 0x00, 0x40,
            ]);
            o.resize(o.len() + n, 0x40);
            (o, "CoseKdfContext")
        }
        7 => {
            // n claims
            let n = n.min(cap / 8).max(1);
            let mut o = head(5, n as u64);
            let ord = rng.below(4);
            let major = if rng.chance(1, 3) { 0 } else { 1 };
            for j in 0..n {
                o.extend(head(major, 65536 + ordered(ord, j, n) as u64));
                o.push(0x00);
            }
            (o, "ClaimsSet")
        }
        0 => {
            let n = n.min(cap / 4);
            let mut o = vec![0x84, 0x40, 0xa0, 0xf6];
            o.extend(head(4, n as u64));
            for _ in 0..n {
                o.extend_from_slice(sig0);
            }
            (o, "CoseSign")
        }
        1 => {
            let n = n.min(cap / 4);
            let mut o = vec![0x84, 0x40, 0xa0, 0xf6];
            o.extend(head(4, n as u64));
            for _ in 0..n {
                o.extend_from_slice(rcpt0);
            }
            (o, "CoseEncrypt")
        }
        2 => {
            let n = n.min(cap / 3);
            let mut o = head(4, n as u64);
            for _ in 0..n {
                o.extend([0xa1, 0x01, 0x01]);
            }
            (o, "CoseKeySet")
        }
        _ => {
            let n = n.min(cap / 6).max(1);
            let mut o = head(5, n as u64);
            let ord = rng.below(4);
            let major = if rng.chance(1, 3) { 1 } else { 0 };
            for j in 0..n {
                o.extend(head(major, 1000 + ordered(ord, j, n) as u64));
                o.push(0x00);
            }
            match rng.below(4) {
                0 => (o, "CoseKey"),
                _ => carry_header(rng, &o),
            }
        }
    }
}

/// One nesting case.  `cap` bounds the size in bytes.
pub fn gen_nest(rng: &mut Rng, cap: usize) -> Case {
    gen_nest_opt(rng, cap, false)
}

/// `full_depth`: nest as deep as the size cap allows.
pub fn gen_nest_opt(rng: &mut Rng, cap: usize, full_depth: bool) -> Case {
    let kind = rng.below(NEST_KINDS.len());
    let sig0: &[u8] = &[0x83, 0x40, 0xa0, 0x40];
    let rcpt0: &[u8] = &[0x83, 0x40, 0xa0, 0xf6];
    let drawn = std::cell::Cell::new(0usize);
    let depth = |rng: &mut Rng, per_level: usize| -> usize {
        let max = (cap / per_level).max(2) as u64;
        // half the cases hover around the limits that exist (ciborium's 256, any COSE-level bound)
        let d = match rng.below(4) {
            _ if full_depth => max as usize,
            0 => rng.range(1, 40.min(max as usize)),
            1 => rng.range(1, 300.min(max as usize)),
            _ => rng.log_uniform(1, max) as usize,
        };
        drawn.set(d);
        d
    };
    // innermost signature: minimal, or with a protected header of several kB (so that every
    // enclosing level is large too)
    let big_leaf: Vec<u8> = {
        let n = *rng.pick(&[4097usize, 5000, 9000]);
        let mut h = vec![0xa1, 0x04];
        h.extend(head(2, n as u64));
        h.resize(h.len() + n, 0x5a);
        let mut s0 = vec![0x83];
        s0.extend(head(2, h.len() as u64));
        s0.extend(h);
        s0.extend([0xa0, 0x40]);
        s0
    };
    let sig0: &[u8] = if rng.chance(1, 3) { &big_leaf } else { sig0 };
    let (bytes, ty): (Vec<u8>, &str) = match kind {
        0 => {
            let d = depth(rng, 10);
            let sig = nest_protected_countersig(d, sig0);
            if rng.bool() {
                (sig, "CoseSignature")
            } else {
                carry_header(rng, &hdr_with_countersig(&sig))
            }
        }
        1 => {
            let d = depth(rng, 5);
            let sig = nest_unprotected_countersig(d, sig0);
            if rng.bool() {
                (sig, "CoseSignature")
            } else {
                carry_header(rng, &hdr_with_countersig(&sig))
            }
        }
        2 => {
            let d = depth(rng, 10);
            let sig = nest_unprotected_countersig_array(d, sig0);
            carry_header(rng, &hdr_with_countersig(&sig))
        }
        3 => {
            let d = depth(rng, 5);
            let r = nest_recipients(d, rcpt0);
            match rng.below(3) {
                0 => (r, "CoseRecipient"),
                1 => {
                    let mut o = vec![0x84, 0x40, 0xa0, 0xf6, 0x81];
                    o.extend(r);
                    (o, "CoseEncrypt")
                }
                _ => {
                    let mut o = vec![0x85, 0x40, 0xa0, 0x40, 0x40, 0x81];
                    o.extend(r);
                    (o, "CoseMac")
                }
            }
        }
        4..=12 => {
            let d = depth(rng, 2);
            let v = nest_cbor(kind - 4, d, &[0x00]);
            carry_value(rng, &v)
        }
        13 => {
            // mixture: recipients to depth c, whose innermost recipient carries protected
            // counter-signatures to depth b, whose innermost carries plain CBOR nesting to depth f
            let c = rng.range(0, 130);
            let b = depth(rng, 10).min(cap / 20);
            let f = rng.range(0, 300);
            let val = nest_cbor(rng.below(5), f, &[0x00]);
            let mut inner_hdr = vec![0xa1, 0x18, 0x63];
            inner_hdr.extend(val);
            let mut s0 = vec![0x83, 0x40];
            s0.extend(inner_hdr);
            s0.push(0x40);
            let sig = nest_protected_countersig(b, &s0);
            let h = hdr_with_countersig(&sig);
            let mut r0 = vec![0x83];
            r0.extend(bstr(&h));
            r0.extend([0xa0, 0xf6]);
            let r = nest_recipients(c, &r0);
            let mut o = vec![0x84, 0x40, 0xa0, 0xf6, 0x81];
            o.extend(r);
            (o, "CoseEncrypt")
        }
        14 => {
            let d = depth(rng, 10);
            let sig = nest_protected_countersig(d, sig0);
            let h = hdr_with_countersig(&sig);
            let mut o = vec![0x82, 0x18, 0x80];
            o.extend(bstr(&h));
            if rng.bool() {
                (o, "SuppPubInfo")
            } else {
                let mut k = vec![0x84, 0x01, 0x83, 0xf6, 0xf6, 0xf6, 0x83, 0xf6, 0xf6, 0xf6];
                k.extend(o);
                (k, "CoseKdfContext")
            }
        }
        17 => {
            // a byte string that holds a byte string that holds ... a leaf item: a CBOR leaf at
            // every level (the parser's depth limit never applies), and anything that looks INTO
            // byte strings recursively is bounded by the input length only
            let d = depth(rng, 3);
            let leaf: Vec<u8> = match rng.below(4) {
                0 => vec![0xa1, 0x01, 0x01],
                1 => vec![0xa0],
                2 => vec![0x83, 0x40, 0xa0, 0x40],
                _ => vec![0x00],
            };
            let mut lens = vec![0usize; d + 1];
            lens[d] = leaf.len();
            for i in (0..d).rev() {
                lens[i] = head(2, lens[i + 1] as u64).len() + lens[i + 1];
            }
            let mut chain = Vec::with_capacity(lens[0]);
            for i in 0..d {
                chain.extend(head(2, lens[i + 1] as u64));
            }
            chain.extend(leaf);
            // bare, or in the places where coset itself looks into a byte string or keeps one
            match rng.below(5) {
                0 => (chain, "CoseKey"),
                1 => {
                    let mut o = vec![0x81];
                    o.extend(chain);
                    (o, "CoseKeySet")
                }
                2 => {
                    let mut o = vec![0x84];
                    o.extend(chain);
                    o.extend([0xa0, 0xf6, 0x40]);
                    (o, "CoseSign1")
                }
                3 => {
                    let mut o = vec![0xa1, 0x18, 0x63];
                    o.extend(chain);
                    carry_header(rng, &o)
                }
                _ => carry_value(rng, &chain),
            }
        }
        16 => {
            // zig-zag through the counter-signature cycle: alternate / mix the unprotected and the
            // protected-bstr hop (each bstr hop gives the CBOR parser a fresh recursion budget)
            let d = depth(rng, 10);
            let pat = rng.below(5);
            let block = rng.range(1, 120);
            let hops: Vec<u8> = (0..d)
                .map(|i| match pat {
                    0 => (i % 2) as u8,
                    1 => ((i + 1) % 2) as u8,
                    2 => rng.below(4) as u8,
                    3 => {
                        if i % (block + 1) == block {
                            1
                        } else {
                            0
                        }
                    }
                    _ => {
                        if i % (block + 1) == block {
                            3
                        } else {
                            2
                        }
                    }
                })
                .collect();
            let sig = nest_zigzag(&hops, sig0);
            if rng.bool() {
                (sig, "CoseSignature")
            } else {
                carry_header(rng, &hdr_with_countersig(&sig))
            }
        }
        _ => gen_wide(rng, cap, false),
    };
    Case {
        bytes,
        faults: vec![NEST_KINDS[kind].to_string()],
        base_type: ty.to_string(),
        depth: Some(drawn.get()),
    }
}

// ------------------------------------------------------------------------------------------
// Byzantine re-encoding and substitution
// ------------------------------------------------------------------------------------------

/// The tagged data items of RFC 8949 section 3.4 (what a generic CBOR producer may put where a
/// number, a time or a string is expected), with components at the extremes.
fn std_tagged(rng: &mut Rng) -> Item {
    let big = |rng: &mut Rng| match rng.below(8) {
        0 => Item::uint(0),
        1 => Item::uint(1),
        2 => Item::uint(u64::MAX),
        3 => Item::uint(i64::MAX as u64),
        4 => Item::int(-(1i128 << 64)),
        5 => Item::int(-1),
        6 => Item::tag(2, Item::bytes(&[0xff; 12])),
        _ => Item::uint(*rng.pick(&[10u64, 308, 309, 1000, 1 << 20, 1 << 32])),
    };
    match rng.below(14) {
        0 => Item::tag(0, Item::text("2026-10-01T00:00:00Z")),
        1 => Item::tag(1, big(rng)),
        2 => Item::tag(
            1,
            Item::new(Kind::Float(8, crate::palette::float_bits(rng))),
        ),
        3 | 4 | 5 => {
            // decimal fraction [exponent, mantissa]
            let e = big(rng);
            let m = big(rng);
            Item::tag(4, Item::array(vec![e, m]))
        }
        6 | 7 => {
            // bigfloat
            let e = big(rng);
            let m = big(rng);
            Item::tag(5, Item::array(vec![e, m]))
        }
        8 => Item::tag(*rng.pick(&[21u64, 22, 23]), Item::bytes(&[1, 2, 3])),
        9 => Item::tag(24, Item::bytes(&[0x83, 0x40, 0xa0, 0x40])),
        10 => Item::tag(32, Item::text("https://example.com/x")),
        11 => Item::tag(*rng.pick(&[33u64, 34, 35, 36]), Item::text("QUJD")),
        12 => Item::tag(37, Item::bytes(&[0x11; 16])),
        _ => Item::tag(55799, big(rng)),
    }
}

/// A number the way a generic CBOR producer may also write one: decimal fraction or bigfloat
/// (tag 4 / 5 over [exponent, mantissa]) or an epoch time (tag 1), with the exponent anywhere in
/// the 64-bit range and the mantissa often zero or one.
fn std_number(rng: &mut Rng) -> Item {
    let e = match rng.below(6) {
        0 => Item::int(-2),
        1 => Item::uint(*rng.pick(&[3u64, 19, 308, 400, 1 << 20])),
        2 => Item::uint(*rng.pick(&[1u64 << 31, 1 << 32, 1 << 40])),
        3 => Item::uint(i64::MAX as u64),
        4 => Item::uint(u64::MAX),
        _ => Item::int(*rng.pick(&[-(1i128 << 63), -(1i128 << 64), -400, -(1i128 << 32)])),
    };
    let m = match rng.below(4) {
        0 => Item::uint(0),
        1 => Item::uint(1),
        2 => Item::int(-1),
        _ => Item::uint(*rng.pick(&[17u64, 1_700_000_000, u64::MAX])),
    };
    match rng.below(5) {
        0 => Item::tag(1, m),
        1 | 2 => Item::tag(4, Item::array(vec![e, m])),
        3 => Item::tag(5, Item::array(vec![e, m])),
        _ => Item::tag(4, Item::array(vec![m, e])),
    }
}

fn subst_palette(rng: &mut Rng) -> Item {
    if rng.chance(1, 12) {
        return std_number(rng);
    }
    if rng.chance(1, 6) {
        return std_tagged(rng);
    }
    let n = rng.below(34);
    match n {
        0..=5 => Item::array((0..n).map(|i| Item::uint(i as u64)).collect()),
        6 => Item::map(vec![]),
        7 => Item::map(vec![(Item::uint(1), Item::uint(1))]),
        8 => Item::map(vec![
            (Item::uint(1), Item::uint(1)),
            (Item::uint(1), Item::uint(2)),
        ]),
        9 => Item::bytes(&[]),
        10 => Item::bytes(&[1, 2, 3]),
        11 => Item::text(""),
        12 => Item::text("a/b"),
        13 => Item::null(),
        14 => Item::new(Kind::Simple(23)),
        15 => Item::bool(false),
        16 => Item::bool(true),
        17 => Item::uint(0),
        18 => Item::int(-1),
        19 => Item::uint(*rng.pick(&[1u64 << 63, (1u64 << 63) - 1, 1 << 32, (1 << 32) - 1])),
        20 => Item::uint(u64::MAX),
        21 => Item::int(*rng.pick(&[
            -(1i128 << 63) - 1,
            -(1i128 << 63),
            -(1i128 << 63) + 1,
            -(1i128 << 32) - 1,
        ])),
        22 => Item::int(-(1i128 << 64)),
        23 => Item::tag(2, Item::bytes(&[1, 0, 0, 0, 0, 0, 0, 0, 0])),
        24 => Item::tag(3, Item::bytes(&[0xff; 9])),
        25 => Item::new(Kind::Float(2, 0x7e00)),
        26 => Item::new(Kind::Float(4, 0x7f80_0000)),
        27 => Item::new(Kind::Float(8, 1.5f64.to_bits())),
        28 => Item::tag(18, Item::array(vec![])),
        29 => Item::uint(*rng.pick(&[1u64, 2, 3, 4, 5, 6, 7, 23, 24, 255, 256, 65535, 65536])),
        30 => Item::int(-(*rng.pick(&[1i128, 2, 7, 24, 25, 256, 257, 65536, 65537]))),
        31 => Item::new(Kind::Simple(*rng.pick(&[0u8, 19, 32, 255]))),
        32 => Item::array(vec![Item::bytes(&[]), Item::map(vec![]), Item::bytes(&[])]),
        _ => Item::array(vec![
            Item::bytes(&[]),
            Item::map(vec![]),
            Item::null(),
            Item::array(vec![]),
        ]),
    }
}

/// Convert some integers of the tree to bignum tags, wrap some items in extra tags.
fn byzantine_tree(rng: &mut Rng, it: &mut Item, depth: usize) {
    if depth > 64 {
        return;
    }
    match &mut it.kind {
        Kind::Array(a) => {
            for x in a.iter_mut() {
                byzantine_tree(rng, x, depth + 1);
            }
        }
        Kind::Map(m) => {
            for (k, v) in m.iter_mut() {
                byzantine_tree(rng, k, depth + 1);
                byzantine_tree(rng, v, depth + 1);
            }
        }
        Kind::Tag(_, b) => byzantine_tree(rng, b, depth + 1),
        Kind::UInt(_) | Kind::NInt(_) | Kind::Float(_, _) if rng.chance(1, 16) => {
            *it = std_number(rng);
        }
        Kind::UInt(v) if rng.chance(1, 12) => {
            let bytes = v.to_be_bytes();
            let skip = bytes.iter().take_while(|b| **b == 0).count();
            *it = Item::tag(2, Item::bytes(&bytes[skip..]));
        }
        Kind::NInt(v) if rng.chance(1, 12) => {
            let bytes = v.to_be_bytes();
            let skip = bytes.iter().take_while(|b| **b == 0).count();
            *it = Item::tag(3, Item::bytes(&bytes[skip..]));
        }
        Kind::Float(_, _) if rng.chance(1, 3) => {
            *it = Item::new(match rng.below(3) {
                0 => Kind::Float(2, *rng.pick(&[0x3c00u64, 0x7c00, 0x7e00, 0x0001, 0xfc00])),
                1 => Kind::Float(4, *rng.pick(&[0x3fc0_0000u64, 0x7fc0_0000, 0xff80_0000])),
                _ => Kind::Float(
                    8,
                    *rng.pick(&[
                        0x7ff8_0000_0000_0001u64,
                        0x0000_0000_0000_0001,
                        0xfff0_0000_0000_0000,
                    ]),
                ),
            });
        }
        _ => {}
    }
    if rng.chance(1, 40) {
        let t = *rng.pick(&[
            0u64,
            1,
            2,
            3,
            16,
            17,
            18,
            24,
            61,
            96,
            97,
            98,
            55799,
            u64::MAX,
        ]);
        let inner = std::mem::replace(it, Item::null());
        *it = Item::tag(t, inner);
    }
}

// ------------------------------------------------------------------------------------------
// one case
// ------------------------------------------------------------------------------------------

pub const BYTE_FAULTS: &[&str] = &[
    "cut",
    "append",
    "dup",
    "flip",
    "set",
    "del",
    "ins",
    "splice",
    "head-inflate",
    "tag-rewrite",
    "coalesce",
];

fn apply_byte_fault(
    rng: &mut Rng,
    b: &mut Vec<u8>,
    other: &[u8],
    cap: usize,
) -> Option<&'static str> {
    let k = rng.below(BYTE_FAULTS.len());
    let before = b.clone();
    match BYTE_FAULTS[k] {
        "cut" => {
            if !b.is_empty() {
                let n = rng.below(b.len());
                b.truncate(n);
            }
        }
        "append" => {
            let n = rng.range(1, 9);
            b.extend(rng.bytes(n));
        }
        "dup" => {
            if b.len() * 2 <= cap {
                let c = b.clone();
                b.extend(c);
            }
        }
        "coalesce" => {
            if b.len() + other.len() <= cap {
                b.extend_from_slice(other);
            }
        }
        "flip" => {
            if !b.is_empty() {
                let i = rng.below(b.len());
                b[i] ^= 1 << rng.below(8);
            }
        }
        "set" => {
            if !b.is_empty() {
                let i = rng.below(b.len());
                const V: &[u8] = &[
                    0x00, 0x01, 0x17, 0x18, 0x1b, 0x20, 0x3b, 0x40, 0x5b, 0x5f, 0x60, 0x7f, 0x80,
                    0x9b, 0x9f, 0xa0, 0xbb, 0xbf, 0xc2, 0xc3, 0xd2, 0xdb, 0xf6, 0xf7, 0xf9, 0xfb,
                    0xff,
                ];
                b[i] = if rng.bool() {
                    *rng.pick(V)
                } else {
                    rng.next_u64() as u8
                };
            }
        }
        "del" => {
            if b.len() > 1 {
                let i = rng.below(b.len());
                let n = rng.range(1, (b.len() - i).min(16));
                b.drain(i..i + n);
            }
        }
        "ins" => {
            let i = rng.below(b.len() + 1);
            let n = rng.range(1, 8);
            let ins = if rng.bool() {
                rng.bytes(n)
            } else {
                refcbor::encode(&subst_palette(rng))
            };
            let tail = b.split_off(i);
            b.extend(ins);
            b.extend(tail);
        }
        "splice" => {
            if !other.is_empty() && !b.is_empty() {
                let i = rng.below(b.len());
                let j = rng.below(other.len());
                let n = rng.range(1, (other.len() - j).min(64));
                let tail = b.split_off(i);
                b.extend_from_slice(&other[j..j + n]);
                let skip = n.min(tail.len());
                b.extend_from_slice(&tail[if rng.bool() { skip } else { 0 }..]);
            }
        }
        "head-inflate" => {
            // rewrite the length/count argument of one string/array/map head
            if let Ok(root) = refcbor::read_item(b) {
                let paths = refcbor::paths(&root);
                let cands: Vec<&Vec<usize>> = paths
                    .iter()
                    .filter(|p| {
                        matches!(
                            refcbor::get(&root, p).map(|i| &i.kind),
                            Some(Kind::Bytes(_) | Kind::Text(_) | Kind::Array(_) | Kind::Map(_))
                        )
                    })
                    .collect();
                if !cands.is_empty() {
                    let p = cands[rng.below(cands.len())];
                    let it = refcbor::get(&root, p).unwrap();
                    if !it.indefinite {
                        let major = match it.kind {
                            Kind::Bytes(_) => 2,
                            Kind::Text(_) => 3,
                            Kind::Array(_) => 4,
                            _ => 5,
                        };
                        let big = *rng.pick(&[
                            24u64,
                            255,
                            256,
                            65535,
                            65536,
                            1 << 24,
                            (1 << 32) - 1,
                            1 << 32,
                            1 << 48,
                            (1u64 << 63) - 1,
                            1 << 63,
                            u64::MAX,
                        ]);
                        let w = *rng.pick(&[8u8, 8, 4, 2]);
                        let h = refcbor::head_width(major, big, w)
                            .unwrap_or_else(|| refcbor::head_width(major, big, 8).unwrap());
                        let (s, e) = (it.start, it.start + it.head_len);
                        let tail = b.split_off(e);
                        b.truncate(s);
                        b.extend(h);
                        b.extend(tail);
                    }
                }
            }
        }
        _ => {
            // tag-rewrite: prepend a tag head, or rewrite an existing leading tag
            let t = *rng.pick(&[
                0u64,
                1,
                2,
                3,
                16,
                17,
                18,
                19,
                61,
                96,
                97,
                98,
                99,
                55799,
                1 << 32,
                u64::MAX,
            ]);
            let w = *rng.pick(&[0u8, 1, 2, 4, 8]);
            let h = refcbor::head_width(6, t, w).unwrap_or_else(|| refcbor::head(6, t));
            if !b.is_empty() && b[0] >> 5 == 6 && rng.bool() {
                if let Ok(root) = refcbor::read_item(b) {
                    let tail = b.split_off(root.head_len.min(b.len()));
                    *b = h;
                    b.extend(tail);
                }
            } else {
                let tail = std::mem::take(b);
                *b = h;
                b.extend(tail);
            }
        }
    }
    if b.len() > cap {
        b.truncate(cap);
    }
    if *b != before {
        Some(BYTE_FAULTS[k])
    } else {
        None
    }
}

/// Generate one delivery.
pub fn gen_case(rng: &mut Rng, cap: usize) -> Case {
    // 1 in 6: nesting axes; 1 in 24: pure random bytes; otherwise corrupted valid traffic
    let mode = rng.below(24);
    if mode < 4 {
        let cap2 = if rng.chance(1, 8) {
            cap
        } else {
            cap.min(16 << 10)
        };
        let mut c = gen_nest(rng, cap2);
        if rng.chance(1, 4) {
            let mut b = c.bytes.clone();
            if let Some(f) = apply_byte_fault(rng, &mut b, &[0x00], cap) {
                c.faults.push(f.to_string());
                c.bytes = b;
            }
        }
        return c;
    }
    if mode == 4 {
        let n = rng.range(0, 64);
        return Case {
            bytes: rng.bytes(n),
            faults: vec!["random-bytes".into()],
            base_type: "none".into(),
            depth: None,
        };
    }
    let ty = MESSAGE_TYPES[rng.below(MESSAGE_TYPES.len())];
    let tagged = TAGGABLE.contains(&ty) && rng.chance(1, 3);
    let cfg = match rng.below(16) {
        0 => GenCfg {
            big: cap / 4,
            big_chance: 6,
        },
        1..=3 => GenCfg::medium(),
        _ => GenCfg::small(),
    };
    let mut faults = Vec::new();
    let mut item = gen_item(rng, ty, &cfg);
    if tagged {
        if let Some(t) = crate::endpoints::reg_tag(ty) {
            item = Item::tag(t, item);
        }
    }
    // Byzantine peer (1 in 4): substitution and/or re-encoding with seeded encoding choices
    let mut bytes;
    if rng.chance(1, 4) {
        if rng.chance(2, 3) {
            let paths = refcbor::paths(&item);
            let nsub = rng.range(1, 2);
            for _ in 0..nsub {
                let p = &paths[rng.below(paths.len())];
                if let Some(slot) = refcbor::get_mut(&mut item, p) {
                    *slot = subst_palette(rng);
                    faults.push("subst".to_string());
                }
            }
        }
        if rng.bool() {
            byzantine_tree(rng, &mut item, 0);
            let mut out = Vec::new();
            let widen = rng.range(1, 8) as u32;
            let indef = rng.range(0, 8) as u32;
            refcbor::write_item(&item, &mut out, &mut Seeded { rng, widen, indef });
            if out != refcbor::encode(&item) {
                faults.push("reencode".to_string());
            }
            bytes = out;
        } else {
            bytes = refcbor::encode(&item);
        }
    } else {
        bytes = refcbor::encode(&item);
    }
    // 0-3 byte-level faults
    let nf = rng.weighted(&[30, 40, 20, 10]);
    if nf > 0 {
        let oty = MESSAGE_TYPES[rng.below(MESSAGE_TYPES.len())];
        let other = gen_wire(rng, oty, false, &GenCfg::small());
        for _ in 0..nf {
            if let Some(f) = apply_byte_fault(rng, &mut bytes, &other, cap) {
                faults.push(f.to_string());
            }
        }
    }
    if bytes.len() > cap {
        bytes.truncate(cap);
    }
    Case {
        bytes,
        faults,
        base_type: ty.to_string(),
        depth: None,
    }
}
