//! Supervisor: spawns worker processes, merges their result streams, attributes worker deaths to
//! runs, minimises violations, writes replay files and evidence, applies the known-findings file.

use crate::engine::{Engine, RunStats, Tier};
use crate::trace::{HarnessError, Trace, Violation};
use crate::util::{hex, unhex, Counters, Json};
use std::collections::{BTreeMap, HashSet};
use std::io::{BufRead, BufReader, Read, Write};
use std::os::unix::process::ExitStatusExt;
use std::process::{Child, Command, Stdio};
use std::sync::{Arc, Mutex};
use std::time::{Duration, Instant};

pub const VERIF_DIR: &str = "/verif";

pub struct Opts {
    pub tier: Tier,
    pub seed: u64,
    pub jobs: usize,
    /// override of the number of runs (self-tests)
    pub runs: Option<u64>,
    /// print per-run hashes (determinism self-test)
    pub emit_hashes: bool,
    pub write_evidence: bool,
    /// configuration the workers run under (set by run_check per configuration)
    pub config: Option<crate::engine::Config>,
}

// ------------------------------------------------------------------------------------------
// worker side
// ------------------------------------------------------------------------------------------

/// `cosim worker <id> --tier T --seed S --from A --to B`
pub fn worker_main(
    engine: &'static dyn Engine,
    tier: Tier,
    seed: u64,
    from: u64,
    to: u64,
    emit_hashes: bool,
    config: String,
) -> i32 {
    let stack = engine.stack_size();
    let h = std::thread::Builder::new()
        .name("cosim-run".into())
        .stack_size(stack)
        .spawn(move || worker_body(engine, tier, seed, from, to, emit_hashes, config))
        .expect("spawn run thread");
    match h.join() {
        Ok(code) => code,
        Err(_) => {
            eprintln!("cosim worker: run thread panicked outside catch_unwind");
            3
        }
    }
}

fn worker_body(
    engine: &'static dyn Engine,
    tier: Tier,
    seed: u64,
    from: u64,
    to: u64,
    emit_hashes: bool,
    config: String,
) -> i32 {
    let out = std::io::stdout();
    let mut out = std::io::BufWriter::with_capacity(1 << 16, out.lock());
    let mut stats = RunStats::default();
    let mut sets: BTreeMap<u8, HashSet<u64>> = BTreeMap::new();
    // COSIM_FINE: report progress after every run (the supervisor uses it to locate the run
    // during which a worker dies)
    let batch = if std::env::var_os("COSIM_FINE").is_some() {
        1
    } else {
        engine.batch().max(1)
    };
    let mut nviol = 0u64;
    let mut i = from;
    let _ = writeln!(out, "P {}", from);
    let _ = out.flush();
    while i < to {
        let end = (i + batch).min(to);
        for run in i..end {
            let mut t = engine.gen(seed, run, tier);
            if config != "default" && config != "std:off" {
                t.set_meta("config", config.clone());
            }
            if emit_hashes {
                let _ = writeln!(out, "T {} {:016x}", run, t.hash());
            }
            let res = engine.exec(&t, &mut stats);
            match res {
                Ok(None) => {}
                Ok(Some(v)) => {
                    nviol += 1;
                    stats.counters.inc("violating_runs");
                    if nviol <= 16 {
                        let rt = match &v.narrowed {
                            Some(n) => (**n).clone(),
                            None => t.clone(),
                        };
                        let _ = writeln!(
                            out,
                            "V {} {} {} {}",
                            run,
                            hex(v.invariant.as_bytes()),
                            hex(v.detail.as_bytes()),
                            hex(rt.render(&v.invariant, &v.detail).as_bytes())
                        );
                    }
                }
                Err(e) => {
                    let _ = writeln!(out, "X {} {}", run, hex(e.0.as_bytes()));
                    let _ = out.flush();
                    return 2;
                }
            }
            for (c, h) in stats.distinct.drain(..) {
                sets.entry(c).or_default().insert(h);
            }
            if run - from < engine.sample_runs() && from == 0 {
                let _ = writeln!(out, "S {}", hex(t.summary().as_bytes()));
            }
        }
        i = end;
        let _ = writeln!(out, "P {}", i);
        let _ = out.flush();
    }
    for (k, v) in &stats.counters.0 {
        let _ = writeln!(out, "C {} {}", hex(k.as_bytes()), v);
    }
    for (c, set) in &sets {
        let mut n = 0;
        let mut line = String::new();
        for h in set {
            if n == 0 {
                line = format!("H {}", c);
            }
            line.push_str(&format!(" {:016x}", h));
            n += 1;
            if n == 256 {
                let _ = writeln!(out, "{}", line);
                n = 0;
            }
        }
        if n > 0 {
            let _ = writeln!(out, "{}", line);
        }
    }
    let _ = writeln!(out, "D");
    let _ = out.flush();
    0
}

/// `cosim exec --replay <file>`: execute one trace in this process; prints `RESULT ...`.
pub fn exec_main(engines: &[&'static dyn Engine], path: &str) -> i32 {
    let text = match std::fs::read_to_string(path) {
        Ok(t) => t,
        Err(e) => {
            println!("RESULT harness-error cannot read {}: {}", path, e);
            return 2;
        }
    };
    let (trace, _inv) = match Trace::parse(&text) {
        Ok(x) => x,
        Err(e) => {
            println!("RESULT harness-error {}", e);
            return 2;
        }
    };
    let engine = match engines.iter().find(|e| e.id() == trace.property) {
        Some(e) => *e,
        None => {
            println!("RESULT harness-error unknown property {}", trace.property);
            return 2;
        }
    };
    let stack = engine.stack_size();
    let h = std::thread::Builder::new()
        .stack_size(stack)
        .spawn(move || {
            let mut st = RunStats::default();
            let r = engine.exec(&trace, &mut st);
            for (k, v) in &st.counters.0 {
                if k.starts_with("max:") {
                    println!("STAT {}={}", k, v);
                }
            }
            r
        })
        .expect("spawn");
    match h.join() {
        Ok(Ok(None)) => {
            println!("RESULT ok");
            0
        }
        Ok(Ok(Some(v))) => {
            println!(
                "RESULT violation {} {}",
                v.invariant,
                v.detail.replace('\n', " ")
            );
            1
        }
        Ok(Err(e)) => {
            println!("RESULT harness-error {}", e.0);
            2
        }
        Err(_) => {
            println!("RESULT harness-error run thread panicked outside catch_unwind");
            2
        }
    }
}

// ------------------------------------------------------------------------------------------
// parent side
// ------------------------------------------------------------------------------------------

#[derive(Default)]
struct Merged {
    counters: Counters,
    sets: BTreeMap<u8, HashSet<u64>>,
    violations: Vec<(u64, Violation, Trace)>,
    samples: Vec<String>,
    run_hashes: Vec<(u64, u64)>,
    harness_errors: Vec<String>,
    completed: u64,
}

impl Merged {
    fn absorb(&mut self, o: Merged) {
        self.counters.merge(&o.counters);
        for (c, s) in o.sets {
            self.sets.entry(c).or_default().extend(s);
        }
        self.violations.extend(o.violations);
        self.samples.extend(o.samples);
        self.run_hashes.extend(o.run_hashes);
        self.harness_errors.extend(o.harness_errors);
        self.completed += o.completed;
    }
}

enum WorkerEnd {
    Done,
    /// died (or was killed by the watchdog) after completing all runs < progress
    Died {
        progress: u64,
        how: String,
        hang: bool,
    },
    HarnessError(String),
}

fn describe_status(st: &std::process::ExitStatus) -> String {
    if let Some(sig) = st.signal() {
        let name = match sig {
            6 => "SIGABRT",
            9 => "SIGKILL",
            11 => "SIGSEGV",
            7 => "SIGBUS",
            4 => "SIGILL",
            8 => "SIGFPE",
            _ => "signal",
        };
        format!("killed by {} ({})", name, sig)
    } else {
        format!("exit status {}", st.code().unwrap_or(-1))
    }
}

fn spawn_worker(
    engine: &dyn Engine,
    opts: &Opts,
    from: u64,
    to: u64,
    fine: bool,
) -> std::io::Result<Child> {
    let exe = match opts.config.as_ref().and_then(|c| c.exe) {
        Some(p) => std::path::PathBuf::from(p),
        None => std::env::current_exe()?,
    };
    let mut cmd = Command::new(exe);
    cmd.arg("worker")
        .arg(engine.id())
        .arg("--tier")
        .arg(opts.tier.name())
        .arg("--seed")
        .arg(opts.seed.to_string())
        .arg("--from")
        .arg(from.to_string())
        .arg("--to")
        .arg(to.to_string());
    if opts.emit_hashes {
        cmd.arg("--emit-hashes");
    }
    if let Some(c) = &opts.config {
        cmd.arg("--config").arg(c.name);
    }
    if fine {
        cmd.env("COSIM_FINE", "1");
    } else {
        cmd.env_remove("COSIM_FINE");
    }
    cmd.stdin(Stdio::null())
        .stdout(Stdio::piped())
        .stderr(Stdio::piped());
    cmd.spawn()
}

/// Run one worker over [from, to) and collect what it reports.
fn run_worker(engine: &dyn Engine, opts: &Opts, from: u64, to: u64) -> (Merged, WorkerEnd) {
    run_worker_opt(engine, opts, from, to, false)
}

fn run_worker_opt(
    engine: &dyn Engine,
    opts: &Opts,
    from: u64,
    to: u64,
    fine: bool,
) -> (Merged, WorkerEnd) {
    let mut m = Merged::default();
    let child = match spawn_worker(engine, opts, from, to, fine) {
        Ok(c) => c,
        Err(e) => {
            return (
                m,
                WorkerEnd::HarnessError(format!("cannot spawn worker: {}", e)),
            )
        }
    };
    let child = Arc::new(Mutex::new(child));
    let stdout = child.lock().unwrap().stdout.take().unwrap();
    let mut stderr = child.lock().unwrap().stderr.take().unwrap();
    let stderr_thread = std::thread::spawn(move || {
        let mut s = Vec::new();
        let _ = stderr.read_to_end(&mut s);
        String::from_utf8_lossy(&s).into_owned()
    });
    // watchdog
    let last = Arc::new(Mutex::new(Instant::now()));
    let finished = Arc::new(Mutex::new(false));
    let hang = Arc::new(Mutex::new(false));
    let wd = {
        let (child, last, finished, hang) =
            (child.clone(), last.clone(), finished.clone(), hang.clone());
        let limit = Duration::from_secs(engine.watchdog_secs());
        std::thread::spawn(move || loop {
            std::thread::sleep(Duration::from_millis(200));
            if *finished.lock().unwrap() {
                return;
            }
            if last.lock().unwrap().elapsed() > limit {
                *hang.lock().unwrap() = true;
                let _ = child.lock().unwrap().kill();
                return;
            }
        })
    };

    let mut progress = from;
    let mut done = false;
    let mut herr: Option<String> = None;
    let reader = BufReader::with_capacity(1 << 16, stdout);
    for line in reader.lines() {
        let line = match line {
            Ok(l) => l,
            Err(_) => break,
        };
        let mut it = line.split(' ');
        match it.next() {
            Some("P") => {
                if let Some(Ok(p)) = it.next().map(|x| x.parse::<u64>()) {
                    progress = p;
                    *last.lock().unwrap() = Instant::now();
                }
            }
            Some("T") => {
                let run = it.next().and_then(|x| x.parse::<u64>().ok());
                let h = it.next().and_then(|x| u64::from_str_radix(x, 16).ok());
                if let (Some(r), Some(h)) = (run, h) {
                    m.run_hashes.push((r, h));
                }
            }
            Some("V") => {
                let run = it.next().and_then(|x| x.parse::<u64>().ok());
                let inv = it
                    .next()
                    .and_then(unhex)
                    .and_then(|b| String::from_utf8(b).ok());
                let det = it
                    .next()
                    .and_then(unhex)
                    .and_then(|b| String::from_utf8(b).ok());
                let tr = it
                    .next()
                    .and_then(unhex)
                    .and_then(|b| String::from_utf8(b).ok());
                match (run, inv, det, tr) {
                    (Some(run), Some(inv), Some(det), Some(tr)) => match Trace::parse(&tr) {
                        Ok((t, _)) => m.violations.push((run, Violation::new(inv, det), t)),
                        Err(e) => herr = Some(format!("worker sent unparseable trace: {}", e)),
                    },
                    _ => herr = Some("worker sent malformed V line".into()),
                }
            }
            Some("X") => {
                let run = it.next().unwrap_or("?").to_string();
                let msg = it
                    .next()
                    .and_then(unhex)
                    .map(|b| String::from_utf8_lossy(&b).into_owned());
                herr = Some(format!("run {}: {}", run, msg.unwrap_or_default()));
            }
            Some("S") => {
                if let Some(s) = it.next().and_then(unhex) {
                    m.samples.push(String::from_utf8_lossy(&s).into_owned());
                }
            }
            Some("C") => {
                let k = it
                    .next()
                    .and_then(unhex)
                    .and_then(|b| String::from_utf8(b).ok());
                let v = it.next().and_then(|x| x.parse::<u64>().ok());
                if let (Some(k), Some(v)) = (k, v) {
                    if k.starts_with("max:") {
                        m.counters.max(&k, v);
                    } else {
                        m.counters.add(&k, v);
                    }
                }
            }
            Some("H") => {
                if let Some(Ok(c)) = it.next().map(|x| x.parse::<u8>()) {
                    let set = m.sets.entry(c).or_default();
                    for x in it {
                        if let Ok(h) = u64::from_str_radix(x, 16) {
                            set.insert(h);
                        }
                    }
                }
            }
            Some("D") => done = true,
            _ => {}
        }
    }
    *finished.lock().unwrap() = true;
    let status = child.lock().unwrap().wait();
    let _ = wd.join();
    let stderr_text = stderr_thread.join().unwrap_or_default();
    let was_hang = *hang.lock().unwrap();
    if let Some(e) = herr {
        return (m, WorkerEnd::HarnessError(e));
    }
    match status {
        Ok(st) if st.success() && done => {
            m.completed = to - from;
            (m, WorkerEnd::Done)
        }
        Ok(st) => {
            if st.code() == Some(2) {
                return (
                    m,
                    WorkerEnd::HarnessError(format!("worker exit 2: {}", tail(&stderr_text, 400))),
                );
            }
            let how = if was_hang {
                format!(
                    "no progress for {} s (killed by watchdog)",
                    engine.watchdog_secs()
                )
            } else {
                format!(
                    "{}; stderr: {}",
                    describe_status(&st),
                    tail(&stderr_text, 300)
                )
            };
            // what the dead worker reported is discarded; the caller re-runs the completed prefix
            (
                Merged::default(),
                WorkerEnd::Died {
                    progress,
                    how,
                    hang: was_hang,
                },
            )
        }
        Err(e) => (m, WorkerEnd::HarnessError(format!("wait failed: {}", e))),
    }
}

fn tail(s: &str, n: usize) -> String {
    let s = s.trim().replace('\n', " | ");
    if s.len() <= n {
        s
    } else {
        let mut start = s.len() - n;
        while !s.is_char_boundary(start) {
            start += 1;
        }
        format!("...{}", &s[start..])
    }
}

/// Process [from, to), surviving worker deaths.
fn process_range(engine: &dyn Engine, opts: &Opts, from: u64, to: u64) -> Merged {
    let mut total = Merged::default();
    let mut cur = from;
    let mut unexplained_deaths = 0;
    let mut culprits = 0;
    while cur < to {
        let (m, end) = run_worker(engine, opts, cur, to);
        match end {
            WorkerEnd::Done => {
                total.absorb(m);
                break;
            }
            WorkerEnd::HarnessError(e) => {
                total.harness_errors.push(e);
                break;
            }
            WorkerEnd::Died {
                progress,
                how,
                hang,
            } => {
                // 1. re-run the prefix that is known to complete, to collect its results
                if progress > cur {
                    let (m2, end2) = run_worker(engine, opts, cur, progress);
                    match end2 {
                        WorkerEnd::Done => total.absorb(m2),
                        _ => {
                            total.harness_errors.push(format!(
                                "prefix {}..{} completed once and failed when re-run (non-deterministic death?)",
                                cur, progress
                            ));
                            break;
                        }
                    }
                }
                // 2. find the run in the window that kills a fresh worker on its own
                let win_end = (progress + engine.batch()).min(to);
                let mut culprit = None;
                // one worker over the window that reports after every run tells where it dies;
                // the runs before that point are collected in one go, and only from there on are
                // runs tried alone
                let mut start = progress;
                if win_end - progress > 1 {
                    let (_mf, endf) = run_worker_opt(engine, opts, progress, win_end, true);
                    if let WorkerEnd::Died { progress: pf, .. } = endf {
                        if pf > progress && pf < win_end {
                            let (m2, end2) = run_worker(engine, opts, progress, pf);
                            if let WorkerEnd::Done = end2 {
                                total.absorb(m2);
                                start = pf;
                            }
                        }
                    }
                }
                for i in start..win_end {
                    let (m3, end3) = run_worker(engine, opts, i, i + 1);
                    match end3 {
                        WorkerEnd::Done => total.absorb(m3),
                        WorkerEnd::HarnessError(e) => {
                            total.harness_errors.push(e);
                            return total;
                        }
                        WorkerEnd::Died {
                            how: how3,
                            hang: hang3,
                            ..
                        } => {
                            // confirm once more, alone
                            let (_m4, end4) = run_worker(engine, opts, i, i + 1);
                            if let WorkerEnd::Died { .. } = end4 {
                                culprit = Some((i, how3, hang3));
                                break;
                            } else {
                                total.harness_errors.push(format!(
                                    "run {} killed a worker once ({}) but not when repeated",
                                    i, how3
                                ));
                                return total;
                            }
                        }
                    }
                }
                match culprit {
                    Some((i, how3, hang3)) => {
                        let mut t = engine.gen(opts.seed, i, opts.tier);
                        if let Some(c) = &opts.config {
                            if c.name != "default" && c.name != "std:off" {
                                t.set_meta("config", c.name);
                            }
                        }
                        let inv = if hang3 {
                            format!("{}.hang", engine.id())
                        } else {
                            engine.death_invariant()
                        };
                        total.violations.push((i, Violation::new(inv, how3), t));
                        total.counters.inc("violating_runs");
                        total.completed += 1;
                        cur = i + 1;
                        culprits += 1;
                        if culprits >= 4 {
                            // the check has failed four times over in this stretch; locating
                            // every further dying run one by one would take hours on a tree where
                            // thousands of runs die
                            total
                                .counters
                                .inc("probe:range-abandoned-after-repeated-node-deaths");
                            eprintln!("note: four runs of {}..{} killed their worker; the rest of this stretch ({}..{}) is not executed", from, to, cur, to);
                            break;
                        }
                    }
                    None if {
                        // does the death come back when the same stretch runs again in one fresh
                        // process?  Then it depends on state carried across runs: a violation.
                        let (_m, again) = run_worker(engine, opts, cur, win_end);
                        matches!(again, WorkerEnd::Died { .. })
                    } =>
                    {
                        let mut t = engine.gen(opts.seed, win_end - 1, opts.tier);
                        if let Some(c) = &opts.config {
                            if c.name != "default" && c.name != "std:off" {
                                t.set_meta("config", c.name);
                            }
                        }
                        t.set_meta("history-from", cur.to_string());
                        t.set_meta("history-to", (win_end - 1).to_string());
                        t.set_meta("history-tier", opts.tier.name());
                        total.violations.push((
                            win_end - 1,
                            Violation::new(engine.death_invariant(), format!("{} - only when runs {}..{} execute in one process, no single run reproduces it", how, cur, win_end)),
                            t,
                        ));
                        total.counters.inc("violating_runs");
                        cur = win_end;
                    }
                    None if unexplained_deaths < 3 => {
                        // every run of the window completed when executed alone: the death came from
                        // outside the run (e.g. the OOM killer on a machine that is busy with other
                        // work).  The window is done; carry on, but not indefinitely.
                        unexplained_deaths += 1;
                        total.counters.inc("probe:worker-death-not-reproduced");
                        eprintln!("note: a worker died in window {}..{} ({}) but every run of the window completes alone; continuing", progress, win_end, how);
                        cur = win_end;
                    }
                    None => {
                        total.harness_errors.push(format!(
                            "worker died in window {}..{} ({}; hang={}) but no single run reproduces it",
                            progress, win_end, how, hang
                        ));
                        break;
                    }
                }
            }
        }
    }
    total
}

/// Execute a trace in a fresh child process; returns the invariant id it violates, if any.
pub fn exec_child(
    engine: &dyn Engine,
    t: &Trace,
    tmp_tag: &str,
) -> Result<Option<Violation>, HarnessError> {
    let dir = format!("{}/replays", VERIF_DIR);
    let _ = std::fs::create_dir_all(&dir);
    let path = format!("{}/.exec-{}-{}.tmp", dir, std::process::id(), tmp_tag);
    std::fs::write(&path, t.render("?", ""))
        .map_err(|e| HarnessError(format!("write {}: {}", path, e)))?;
    let r = exec_file(engine, &path);
    let _ = std::fs::remove_file(&path);
    r
}

/// Re-execute runs [from, to] of one configuration in ONE fresh worker process and return the
/// first violation it reports (used for violations that depend on what earlier runs left behind
/// in the process: caches, counters, any state that outlives a call).
pub fn exec_history(
    engine: &dyn Engine,
    seed: u64,
    tier: Tier,
    config: Option<&str>,
    from: u64,
    to: u64,
    want_invariant: Option<&str>,
) -> Result<Option<(u64, Violation, Trace)>, HarnessError> {
    let cfg = config.and_then(|c| engine.configurations().into_iter().find(|x| x.name == c));
    let opts = Opts {
        tier,
        seed,
        jobs: 1,
        runs: None,
        emit_hashes: false,
        write_evidence: false,
        config: cfg,
    };
    let (m, end) = run_worker(engine, &opts, from, to + 1);
    match end {
        WorkerEnd::Done => {
            let mut v = m.violations;
            v.sort_by(|a, b| a.0.cmp(&b.0));
            // prefer the wanted invariant at the last run, then the wanted invariant anywhere,
            // then whatever came first
            if let Some(w) = want_invariant {
                if let Some(i) = v.iter().position(|x| x.0 == to && x.1.invariant == w) {
                    return Ok(Some(v.swap_remove(i)));
                }
                if let Some(i) = v.iter().position(|x| x.1.invariant == w) {
                    return Ok(Some(v.swap_remove(i)));
                }
            }
            Ok(v.into_iter().next())
        }
        WorkerEnd::Died { how, hang, .. } => {
            let inv = if hang {
                format!("{}.hang", engine.id())
            } else {
                engine.death_invariant()
            };
            Ok(Some((
                to,
                Violation::new(inv, how),
                engine.gen(seed, to, tier),
            )))
        }
        WorkerEnd::HarnessError(e) => Err(HarnessError(e)),
    }
}

pub fn exec_file(engine: &dyn Engine, path: &str) -> Result<Option<Violation>, HarnessError> {
    let mut exe = std::env::current_exe().map_err(|e| HarnessError(e.to_string()))?;
    if let Ok(text) = std::fs::read_to_string(path) {
        // a history replay: the violation needs the runs before it in the same process
        let meta = |k: &str| {
            text.lines().find_map(|l| {
                l.strip_prefix(&format!("meta {}=", k))
                    .map(|x| x.to_string())
            })
        };
        if let (Some(hf), Some(ht)) = (meta("history-from"), meta("history-to")) {
            let from: u64 = hf
                .parse()
                .map_err(|_| HarnessError("bad history-from".into()))?;
            let to: u64 = ht
                .parse()
                .map_err(|_| HarnessError("bad history-to".into()))?;
            let tier = meta("history-tier")
                .and_then(|t| Tier::parse(&t))
                .unwrap_or(Tier::Quick);
            let seed: u64 = text
                .lines()
                .find_map(|l| l.strip_prefix("seed="))
                .and_then(|x| x.parse().ok())
                .unwrap_or(1);
            let cfg = meta("config");
            let want = text
                .lines()
                .find_map(|l| l.strip_prefix("invariant="))
                .map(|x| x.to_string());
            return Ok(exec_history(
                engine,
                seed,
                tier,
                cfg.as_deref(),
                from,
                to,
                want.as_deref(),
            )?
            .map(|(_, v, _)| v));
        }
        if let Some(cfg) = text.lines().find_map(|l| l.strip_prefix("meta config=")) {
            if let Some(c) = engine.configurations().into_iter().find(|c| c.name == cfg) {
                if let Some(p) = c.exe {
                    exe = std::path::PathBuf::from(p);
                }
            }
        }
    }
    let mut child = Command::new(exe)
        .arg("exec")
        .arg("--replay")
        .arg(path)
        .stdin(Stdio::null())
        .stdout(Stdio::piped())
        .stderr(Stdio::piped())
        .spawn()
        .map_err(|e| HarnessError(format!("spawn exec: {}", e)))?;
    let mut stdout = child.stdout.take().unwrap();
    let mut stderr = child.stderr.take().unwrap();
    let so = std::thread::spawn(move || {
        let mut s = String::new();
        let _ = stdout.read_to_string(&mut s);
        s
    });
    let se = std::thread::spawn(move || {
        let mut s = Vec::new();
        let _ = stderr.read_to_end(&mut s);
        String::from_utf8_lossy(&s).into_owned()
    });
    // watchdog for the single execution
    let limit = Duration::from_secs(engine.watchdog_secs());
    let start = Instant::now();
    let status = loop {
        match child.try_wait() {
            Ok(Some(st)) => break st,
            Ok(None) => {
                if start.elapsed() > limit {
                    let _ = child.kill();
                    let _ = child.wait();
                    let _ = so.join();
                    let _ = se.join();
                    return Ok(Some(Violation::new(
                        format!("{}.hang", engine.id()),
                        format!("no result within {} s", engine.watchdog_secs()),
                    )));
                }
                std::thread::sleep(Duration::from_millis(2));
            }
            Err(e) => return Err(HarnessError(format!("wait: {}", e))),
        }
    };
    let out = so.join().unwrap_or_default();
    let err = se.join().unwrap_or_default();
    let result_line = out.lines().find(|l| l.starts_with("RESULT "));
    match (status.code(), result_line) {
        (Some(0), Some(l)) if l.starts_with("RESULT ok") => Ok(None),
        (Some(1), Some(l)) if l.starts_with("RESULT violation ") => {
            let rest = &l["RESULT violation ".len()..];
            let (inv, det) = rest.split_once(' ').unwrap_or((rest, ""));
            Ok(Some(Violation::new(inv, det)))
        }
        (Some(2), l) => Err(HarnessError(format!(
            "exec child: {}",
            l.unwrap_or("no RESULT line")
        ))),
        _ => Ok(Some(Violation::new(
            engine.death_invariant(),
            format!("{}; stderr: {}", describe_status(&status), tail(&err, 300)),
        ))),
    }
}

/// Delta-debugging over steps, then engine-specific argument shrinking; the invariant id must be
/// preserved at every accepted step.
pub fn minimise(
    engine: &dyn Engine,
    t: &Trace,
    invariant: &str,
) -> Result<(Trace, u64), HarnessError> {
    let mut tests = 0u64;
    let mut cur = t.clone();
    let fails = |cand: &Trace, tests: &mut u64| -> Result<bool, HarnessError> {
        *tests += 1;
        // a candidate that is not a well-formed trace any more (e.g. a precondition-establishing
        // step was deleted) is simply not a reproduction
        match exec_child(engine, cand, "min") {
            Ok(r) => Ok(matches!(r, Some(v) if v.invariant == invariant)),
            Err(_) => Ok(false),
        }
    };
    // every test of a hang costs a whole watchdog period: a handful of attempts, no more (the
    // trace of a hang is one delivery already)
    let budget = if invariant.ends_with(".hang") {
        6u64
    } else {
        600u64
    };
    // ddmin over deletable steps
    let mut chunk = (cur.steps.len() / 2).max(1);
    while chunk >= 1 && tests < budget {
        let mut i = 0;
        let mut removed_any = false;
        while i < cur.steps.len() && tests < budget {
            let end = (i + chunk).min(cur.steps.len());
            if (i..end).any(|k| engine.step_is_fixed(&cur, k)) {
                i += 1;
                continue;
            }
            let mut cand = cur.clone();
            cand.steps.drain(i..end);
            if fails(&cand, &mut tests)? {
                cur = cand;
                removed_any = true;
            } else {
                i += chunk;
            }
        }
        if chunk == 1 && !removed_any {
            break;
        }
        if chunk > 1 {
            chunk /= 2;
        } else if !removed_any {
            break;
        }
    }
    // argument shrinking to a fixed point
    let mut progress = true;
    while progress && tests < budget {
        progress = false;
        for cand in engine.shrink(&cur) {
            if tests >= budget {
                break;
            }
            if cand == cur {
                continue;
            }
            if fails(&cand, &mut tests)? {
                cur = cand;
                progress = true;
                break;
            }
        }
    }
    Ok((cur, tests))
}

// ------------------------------------------------------------------------------------------
// known findings
// ------------------------------------------------------------------------------------------

pub struct KnownFinding {
    pub property: String,
    pub invariant: String,
    pub key: String,
    pub what: String,
}

pub fn load_known_findings() -> Result<Vec<KnownFinding>, HarnessError> {
    let path = format!("{}/known_findings.txt", VERIF_DIR);
    let text = match std::fs::read_to_string(&path) {
        Ok(t) => t,
        Err(_) => return Ok(vec![]),
    };
    let mut out = Vec::new();
    for line in text.lines() {
        let line = line.trim();
        if line.is_empty() || line.starts_with('#') || line.starts_with("fixed:") {
            continue; // fixed: entries suppress nothing
        }
        if let Some(rest) = line.strip_prefix("finding:") {
            let mut property = String::new();
            let mut invariant = String::new();
            let mut key = String::new();
            let mut what = Vec::new();
            for tok in rest.split_whitespace() {
                if let Some(v) = tok.strip_prefix("property=") {
                    property = v.into();
                } else if let Some(v) = tok.strip_prefix("invariant=") {
                    invariant = v.into();
                } else if let Some(v) = tok.strip_prefix("key=") {
                    key = v.into();
                } else {
                    what.push(tok);
                }
            }
            if property.is_empty() || invariant.is_empty() || key.is_empty() {
                return Err(HarnessError(format!(
                    "malformed known_findings line: {}",
                    line
                )));
            }
            out.push(KnownFinding {
                property,
                invariant,
                key,
                what: what.join(" "),
            });
        } else {
            return Err(HarnessError(format!(
                "malformed known_findings line: {}",
                line
            )));
        }
    }
    Ok(out)
}

// ------------------------------------------------------------------------------------------
// the check command
// ------------------------------------------------------------------------------------------

pub struct CheckOutcome {
    pub exit: i32,
    pub run_hashes: Vec<(u64, u64)>,
    /// hash of everything the run observed that must not depend on scheduling: all counters
    /// except timing ones, the sizes of the distinct sets, the violating runs
    pub outcome_digest: u64,
    /// the observations behind the digest, for diagnosing a mismatch
    pub outcome_items: Vec<(String, u64)>,
}

pub fn run_check(engine: &'static dyn Engine, opts: &Opts) -> CheckOutcome {
    let start = Instant::now();
    let id = engine.id();
    if let Err(e) = crate::palette::check_palettes().and_then(|_| engine.startup_check()) {
        eprintln!("harness error: start-up self-check failed: {}", e);
        return CheckOutcome {
            exit: 2,
            run_hashes: vec![],
            outcome_digest: 0,
            outcome_items: vec![],
        };
    }
    let known = match load_known_findings() {
        Ok(k) => k,
        Err(e) => {
            eprintln!("{}", e);
            return CheckOutcome {
                exit: 2,
                run_hashes: vec![],
                outcome_digest: 0,
                outcome_items: vec![],
            };
        }
    };
    let n = opts.runs.unwrap_or_else(|| engine.runs(opts.tier));
    let jobs = opts.jobs.max(1).min(n.max(1) as usize);
    println!(
        "cosim {} tier={} seed={} runs={} jobs={}",
        id,
        opts.tier.name(),
        opts.seed,
        n,
        jobs
    );
    // per configuration: fixed partition into `jobs` contiguous ranges, processed in parallel
    let merged_all = Arc::new(Mutex::new(Merged::default()));
    for cfg in engine.configurations() {
        if let Some(p) = cfg.exe {
            if !std::path::Path::new(p).exists() {
                eprintln!("harness error: worker executable {} for configuration {} is missing (run ./check build)", p, cfg.name);
                return CheckOutcome {
                    exit: 2,
                    run_hashes: vec![],
                    outcome_digest: 0,
                    outcome_items: vec![],
                };
            }
        }
        let n_cfg = n * cfg.share.0 / cfg.share.1;
        let jobs_cfg = jobs.min(n_cfg.max(1) as usize);
        let copts = Opts {
            tier: opts.tier,
            seed: opts.seed,
            jobs: opts.jobs,
            runs: opts.runs,
            emit_hashes: opts.emit_hashes,
            write_evidence: opts.write_evidence,
            config: Some(cfg.clone()),
        };
        let before = merged_all.lock().unwrap().completed;
        std::thread::scope(|s| {
            for w in 0..jobs_cfg as u64 {
                let from = n_cfg * w / jobs_cfg as u64;
                let to = n_cfg * (w + 1) / jobs_cfg as u64;
                let merged_all = merged_all.clone();
                let copts = &copts;
                s.spawn(move || {
                    let m = process_range(engine, copts, from, to);
                    merged_all.lock().unwrap().absorb(m);
                });
            }
        });
        let done = merged_all.lock().unwrap().completed - before;
        merged_all
            .lock()
            .unwrap()
            .counters
            .add(&format!("runs:config:{}", cfg.name), done);
    }
    let mut merged = std::mem::take(&mut *merged_all.lock().unwrap());
    merged.violations.sort_by(|a, b| a.0.cmp(&b.0));
    merged.run_hashes.sort();
    merged.samples.sort();

    if !merged.harness_errors.is_empty() {
        for e in &merged.harness_errors {
            eprintln!("harness error: {}", e);
        }
        return CheckOutcome {
            exit: 2,
            run_hashes: merged.run_hashes,
            outcome_digest: 0,
            outcome_items: vec![],
        };
    }

    // one report per distinct invariant id (first occurrence by run index), at most 4
    let mut reported: Vec<String> = Vec::new();
    let mut exit = 0;
    let mut violation_json = Vec::new();
    let mut new_violations = 0u64;
    let mut known_hits = 0u64;
    let mut seen_inv: Vec<String> = Vec::new();
    let mut soft_tries = 0u32;
    for (run, v, t) in &merged.violations {
        if seen_inv.contains(&v.invariant) {
            continue;
        }
        let soft = v.invariant.ends_with(".slow");
        if soft {
            // timing reports: keep trying candidates until one reproduces alone (at most 12)
            soft_tries += 1;
            if soft_tries > 12 {
                continue;
            }
        } else {
            seen_inv.push(v.invariant.clone());
        }
        if seen_inv.len() > 4 {
            break;
        }
        // confirm in a fresh process, minimise, confirm again
        let confirmed = match exec_child(engine, t, "confirm") {
            Ok(Some(v2)) if v2.invariant == v.invariant => true,
            Ok(other) if v.invariant.ends_with(".slow") => {
                // timing reports must reproduce when the case runs alone; one that does not is
                // scheduling noise and is dropped (never an alarm, never a harness error)
                println!("note: run {} reported {} under load but not when re-executed alone ({:?}); dropped", run, v.invariant, other.map(|x| x.invariant));
                false
            }
            Ok(other) => {
                // Not reproducible alone.  The library may carry state from one call to the next
                // (a cache, a counter): re-execute the runs that preceded it in one fresh process.
                let from = run.saturating_sub(4096);
                let cfg = t.meta("config").map(|s| s.to_string());
                match exec_history(
                    engine,
                    opts.seed,
                    opts.tier,
                    cfg.as_deref(),
                    from,
                    *run,
                    Some(&v.invariant),
                ) {
                    Ok(Some((hr, hv, mut ht))) if hv.invariant == v.invariant => {
                        ht.set_meta("history-from", from.to_string());
                        ht.set_meta("history-to", hr.to_string());
                        ht.set_meta("history-tier", opts.tier.name());
                        let key =
                            format!("{}:needs-history", engine.finding_key(&ht, &hv.invariant));
                        let path = format!(
                            "{}/replays/{}-seed{}-run{}-history.replay",
                            VERIF_DIR, id, opts.seed, hr
                        );
                        let _ = std::fs::create_dir_all(format!("{}/replays", VERIF_DIR));
                        let mut text = ht.render(&hv.invariant, &hv.detail);
                        text.push_str(&format!("# key={}\n# this violation does not occur when run {} executes alone in a fresh process; it needs runs {}..{} before it in the same process (state carried across calls)\n", key, hr, from, hr));
                        let _ = std::fs::write(&path, text);
                        let kf = known.iter().find(|k| {
                            k.property == id && k.invariant == hv.invariant && k.key == key
                        });
                        if let Some(k) = kf {
                            println!(
                                "KNOWN-FINDING: property={} {} (invariant={} key={} replay={})",
                                id, k.what, k.invariant, k.key, path
                            );
                            known_hits += 1;
                        } else {
                            println!("VIOLATION property={} replay={}", id, path);
                            println!(
                                "  invariant={} key={} run={} detail={}",
                                hv.invariant, key, hr, hv.detail
                            );
                            println!("  history-dependent: reproduces only after runs {}..{} in the same process, not alone (alone: {:?})", from, hr, other.as_ref().map(|x| x.invariant.clone()));
                            new_violations += 1;
                            if exit == 0 {
                                exit = 1;
                            }
                        }
                        let mut j = Json::obj();
                        j.set("invariant", Json::s(hv.invariant.clone()))
                            .set("key", Json::s(key))
                            .set("run", Json::i(hr as i128))
                            .set("replay", Json::s(path))
                            .set("known_finding", Json::Bool(kf.is_some()))
                            .set("detail", Json::s(hv.detail.clone()))
                            .set("history_dependent", Json::Bool(true));
                        violation_json.push(j);
                    }
                    other2 => {
                        eprintln!(
                            "harness error: run {} reported {} in the worker but {:?} when re-executed alone, and {:?} when re-executed after the {} runs before it",
                            run,
                            v.invariant,
                            other.map(|x| x.invariant),
                            other2.map(|o| o.map(|(r, x, _)| (r, x.invariant))).map_err(|e| e.0),
                            run - from
                        );
                        exit = 2;
                    }
                }
                false
            }
            Err(e) => {
                eprintln!("{}", e);
                exit = 2;
                false
            }
        };
        if !confirmed {
            continue;
        }
        if soft {
            seen_inv.push(v.invariant.clone());
        }
        let (min, tests) = if t.meta("history-from").is_some() {
            // a history replay is a run range, not a trace to shrink
            (t.clone(), 0)
        } else {
            match minimise(engine, t, &v.invariant) {
                Ok(x) => x,
                Err(e) => {
                    eprintln!("{}", e);
                    (t.clone(), 0)
                }
            }
        };
        let (final_trace, final_v) = match exec_child(engine, &min, "final") {
            Ok(Some(v2)) if v2.invariant == v.invariant => (min, v2),
            _ => {
                eprintln!("harness error: minimised trace of run {} does not reproduce; reporting the unminimised trace", run);
                exit = 2;
                (t.clone(), v.clone())
            }
        };
        let key = engine.finding_key(&final_trace, &final_v.invariant);
        let path = format!(
            "{}/replays/{}-seed{}-run{}.replay",
            VERIF_DIR, id, opts.seed, run
        );
        let _ = std::fs::create_dir_all(format!("{}/replays", VERIF_DIR));
        let mut text = final_trace.render(&final_v.invariant, &final_v.detail);
        text.push_str(&format!(
            "# key={}\n# minimised from {} to {} steps in {} executions\n",
            key,
            t.steps.len(),
            final_trace.steps.len(),
            tests
        ));
        if let Err(e) = std::fs::write(&path, text) {
            eprintln!("harness error: cannot write {}: {}", path, e);
            exit = 2;
        }
        let kf = known
            .iter()
            .find(|k| k.property == id && k.invariant == final_v.invariant && k.key == key);
        if let Some(k) = kf {
            println!(
                "KNOWN-FINDING: property={} {} (invariant={} key={} replay={})",
                id, k.what, k.invariant, k.key, path
            );
            known_hits += 1;
        } else {
            println!("VIOLATION property={} replay={}", id, path);
            println!(
                "  invariant={} key={} run={} detail={}",
                final_v.invariant, key, run, final_v.detail
            );
            println!("  minimised trace: {}", final_trace.summary());
            new_violations += 1;
            if exit == 0 {
                exit = 1;
            }
        }
        reported.push(final_v.invariant.clone());
        let mut j = Json::obj();
        j.set("invariant", Json::s(final_v.invariant.clone()))
            .set("key", Json::s(key))
            .set("run", Json::i(*run as i128))
            .set("replay", Json::s(path))
            .set("known_finding", Json::Bool(kf.is_some()))
            .set("detail", Json::s(final_v.detail.clone()))
            .set("minimised_trace", Json::s(final_trace.summary()));
        violation_json.push(j);
    }

    let wall = start.elapsed().as_secs_f64();
    if opts.write_evidence {
        if let Err(e) = write_evidence(
            engine,
            opts,
            n,
            &merged,
            wall,
            new_violations,
            known_hits,
            violation_json,
        ) {
            eprintln!("harness error: {}", e);
            exit = 2;
        }
    }
    let d0 = merged.sets.get(&0).map(|s| s.len()).unwrap_or(0);
    println!(
        "cosim {} done: runs={} evaluations={} distinct_nontrivial={} violating_runs={} new_violations={} known_findings={} wall={:.1}s exit={}",
        id,
        merged.completed,
        merged.counters.get("evaluations").max(merged.completed),
        d0,
        merged.counters.get("violating_runs"),
        new_violations,
        known_hits,
        wall,
        exit
    );
    let mut outcome_items: Vec<(String, u64)> = Vec::new();
    for (k, v) in &merged.counters.0 {
        // timing-dependent observations are not part of the deterministic outcome
        if k.contains("micros") || k.contains("slow") || k.contains("scaling") {
            continue;
        }
        outcome_items.push((k.clone(), *v));
    }
    for (c, set) in &merged.sets {
        outcome_items.push((format!("distinct-class-{}", c), set.len() as u64));
    }
    for (run, v, _) in &merged.violations {
        outcome_items.push((format!("violation:{}", v.invariant), *run));
    }
    let outcome_digest = {
        let mut h = crate::util::Hasher64::new();
        for (k, v) in &outcome_items {
            h.str(k).u64(*v);
        }
        h.finish()
    };
    CheckOutcome {
        exit,
        run_hashes: merged.run_hashes,
        outcome_digest,
        outcome_items,
    }
}

#[allow(clippy::too_many_arguments)]
fn write_evidence(
    engine: &dyn Engine,
    opts: &Opts,
    n: u64,
    m: &Merged,
    wall: f64,
    new_violations: u64,
    known_hits: u64,
    violation_json: Vec<Json>,
) -> Result<(), HarnessError> {
    let info = engine.info();
    let id = engine.id();
    let evaluations = m.counters.get("evaluations").max(m.completed);
    let distinct = m.sets.get(&0).map(|s| s.len()).unwrap_or(0);
    let mut cov = Json::obj();
    cov.set("evaluations", Json::i(evaluations as i128))
        .set("distinct_nontrivial", Json::i(distinct as i128))
        .set("rule", Json::s(info.rule))
        .set("samples", Json::Arr(m.samples.iter().take(8).map(|s| Json::s(s.clone())).collect()))
        .set("exhaustive", Json::Bool(false))
        .set("runs", Json::i(n as i128))
        .set("runs_completed", Json::i(m.completed as i128))
        .set("runs_per_hour", Json::i(if wall > 0.0 { (m.completed as f64 / wall * 3600.0) as i128 } else { 0 }))
        .set("evaluations_per_hour", Json::i(if wall > 0.0 { (evaluations as f64 / wall * 3600.0) as i128 } else { 0 }))
        .set("simulated_time", Json::s("n/a - the system has no clock or timer; progress is counted in steps (see counters)"));
    let mut reach = Json::obj();
    for (i, name) in info.distinct_classes.iter().enumerate() {
        let c = (i + 1) as u8;
        reach.set(
            name,
            Json::i(m.sets.get(&c).map(|s| s.len()).unwrap_or(0) as i128),
        );
    }
    cov.set("reach_distinct", reach);
    // counters split by prefix
    let mut faults = BTreeMap::new();
    let mut probes = BTreeMap::new();
    let mut other = BTreeMap::new();
    for (k, v) in &m.counters.0 {
        if let Some(r) = k.strip_prefix("fault:") {
            faults.insert(r.to_string(), *v);
        } else if let Some(r) = k.strip_prefix("probe:") {
            probes.insert(r.to_string(), *v);
        } else {
            other.insert(k.clone(), *v);
        }
    }
    cov.set("faults_fired", Json::from_counts(&faults))
        .set("probes", Json::from_counts(&probes))
        .set("counters", Json::from_counts(&other))
        .set(
            "fault_kinds",
            Json::Arr(info.fault_kinds.iter().map(|s| Json::s(*s)).collect()),
        )
        .set(
            "build_configurations",
            Json::Arr(vec![
                Json::s("std:off - coset without its `std` feature, optimised, debug assertions and overflow checks ON; executes every run"),
                Json::s("std:on - coset with its `std` feature, ordinary release profile (debug assertions and overflow checks OFF); executes the first quarter of the run indices again"),
            ]),
        )
        .set(
            "components_real_code",
            Json::Arr(info.real_components.iter().map(|s| Json::s(*s)).collect()),
        )
        .set(
            "components_stub",
            Json::Arr(info.stub_components.iter().map(|s| Json::s(*s)).collect()),
        )
        .set("violations_detail", Json::Arr(violation_json))
        .set("known_findings_hit", Json::i(known_hits as i128))
        .set("design_ref", Json::s(info.design_ref));
    let mut j = Json::obj();
    j.set("property_id", Json::s(id))
        .set("tier", Json::s(opts.tier.name()))
        .set("seed", Json::i(opts.seed as i128))
        .set("level", Json::s(info.level))
        .set("coverage", cov)
        .set(
            "assumptions",
            Json::Arr(info.assumptions.iter().map(|s| Json::s(*s)).collect()),
        )
        .set("wall_s", Json::Num(wall))
        .set("violations", Json::i(new_violations as i128));
    let dir = format!("{}/evidence", VERIF_DIR);
    std::fs::create_dir_all(&dir).map_err(|e| HarnessError(e.to_string()))?;
    let path = format!("{}/{}.json", dir, id);
    std::fs::write(&path, j.render()).map_err(|e| HarnessError(format!("write {}: {}", path, e)))
}

/// `cosim <id> --replay <file>`
pub fn replay_main(engines: &[&'static dyn Engine], path: &str) -> i32 {
    let text = match std::fs::read_to_string(path) {
        Ok(t) => t,
        Err(e) => {
            eprintln!("harness error: cannot read {}: {}", path, e);
            return 2;
        }
    };
    let (trace, recorded) = match Trace::parse(&text) {
        Ok(x) => x,
        Err(e) => {
            eprintln!("{}", e);
            return 2;
        }
    };
    let engine = match engines.iter().find(|e| e.id() == trace.property) {
        Some(e) => *e,
        None => {
            eprintln!("harness error: unknown property {}", trace.property);
            return 2;
        }
    };
    println!("replaying {} (recorded invariant {})", path, recorded);
    println!("trace: {}", trace.summary());
    match exec_file(engine, path) {
        Ok(None) => {
            println!("no violation: the trace executes cleanly on the current tree");
            0
        }
        Ok(Some(v)) => {
            println!("VIOLATION property={} replay={}", trace.property, path);
            println!("  invariant={} detail={}", v.invariant, v.detail);
            if v.invariant != recorded {
                println!("  note: recorded invariant was {}", recorded);
            }
            1
        }
        Err(e) => {
            eprintln!("{}", e);
            2
        }
    }
}
