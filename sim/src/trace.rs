//! Materialised decisions of one run.  A run first turns its PRNG stream into an explicit trace
//! (builder ops with concrete arguments, fault steps with concrete offsets/values, the verify plan)
//! and then executes the trace; replay and minimisation work on the trace, never on PRNG positions.

use crate::util::{hex, unhex};

#[derive(Clone, Debug, PartialEq)]
pub enum Arg {
    I(i128),
    B(Vec<u8>),
    T(String),
    S(String),
}

#[derive(Clone, Debug, PartialEq)]
pub struct Step {
    /// "op", "fault", "verify", "deliver", ...
    pub kind: String,
    pub name: String,
    pub args: Vec<Arg>,
}

#[derive(Clone, Debug, PartialEq, Default)]
pub struct Trace {
    pub property: String,
    pub seed: u64,
    pub run: u64,
    /// free-form configuration (builder type, encoding, tier, ...)
    pub meta: Vec<(String, String)>,
    pub steps: Vec<Step>,
}

#[derive(Debug)]
pub struct HarnessError(pub String);

impl std::fmt::Display for HarnessError {
    fn fmt(&self, f: &mut std::fmt::Formatter<'_>) -> std::fmt::Result {
        write!(f, "harness error: {}", self.0)
    }
}

pub type HResult<T> = Result<T, HarnessError>;

pub fn herr<T>(s: impl Into<String>) -> HResult<T> {
    Err(HarnessError(s.into()))
}

impl Step {
    pub fn new(kind: &str, name: &str, args: Vec<Arg>) -> Step {
        Step {
            kind: kind.into(),
            name: name.into(),
            args,
        }
    }
    pub fn op(name: &str, args: Vec<Arg>) -> Step {
        Step::new("op", name, args)
    }
    pub fn int(&self, i: usize) -> HResult<i128> {
        match self.args.get(i) {
            Some(Arg::I(v)) => Ok(*v),
            other => herr(format!(
                "step {} {}: arg {} should be int, got {:?}",
                self.kind, self.name, i, other
            )),
        }
    }
    pub fn i64(&self, i: usize) -> HResult<i64> {
        i64::try_from(self.int(i)?)
            .map_err(|_| HarnessError(format!("step {}: arg {} out of i64 range", self.name, i)))
    }
    pub fn u64(&self, i: usize) -> HResult<u64> {
        u64::try_from(self.int(i)?)
            .map_err(|_| HarnessError(format!("step {}: arg {} out of u64 range", self.name, i)))
    }
    pub fn usize(&self, i: usize) -> HResult<usize> {
        usize::try_from(self.int(i)?)
            .map_err(|_| HarnessError(format!("step {}: arg {} out of usize range", self.name, i)))
    }
    pub fn bytes(&self, i: usize) -> HResult<&[u8]> {
        match self.args.get(i) {
            Some(Arg::B(v)) => Ok(v),
            other => herr(format!(
                "step {} {}: arg {} should be bytes, got {:?}",
                self.kind, self.name, i, other
            )),
        }
    }
    pub fn text(&self, i: usize) -> HResult<&str> {
        match self.args.get(i) {
            Some(Arg::T(v)) => Ok(v),
            other => herr(format!(
                "step {} {}: arg {} should be text, got {:?}",
                self.kind, self.name, i, other
            )),
        }
    }
    pub fn sym(&self, i: usize) -> HResult<&str> {
        match self.args.get(i) {
            Some(Arg::S(v)) => Ok(v),
            other => herr(format!(
                "step {} {}: arg {} should be symbol, got {:?}",
                self.kind, self.name, i, other
            )),
        }
    }

    pub fn render(&self) -> String {
        let mut s = format!("step {} {}", self.kind, self.name);
        for a in &self.args {
            s.push(' ');
            match a {
                Arg::I(v) => s.push_str(&format!("i:{}", v)),
                Arg::B(b) => s.push_str(&format!("b:{}", hex(b))),
                Arg::T(t) => s.push_str(&format!("t:{}", hex(t.as_bytes()))),
                Arg::S(t) => s.push_str(&format!("s:{}", t)),
            }
        }
        s
    }

    /// Human-oriented one-line summary (long byte strings abbreviated).
    pub fn summary(&self) -> String {
        let mut s = format!("{}:{}", self.kind, self.name);
        for a in &self.args {
            s.push(' ');
            match a {
                Arg::I(v) => s.push_str(&format!("{}", v)),
                Arg::B(b) => s.push_str(&format!("h'{}'", crate::util::hex_short(b))),
                Arg::T(t) => {
                    if t.len() <= 32 {
                        s.push_str(&format!("{:?}", t))
                    } else {
                        s.push_str(&format!("text(len={})", t.len()))
                    }
                }
                Arg::S(t) => s.push_str(t),
            }
        }
        s
    }

    fn parse(line: &str) -> HResult<Step> {
        let mut it = line.split(' ');
        let _ = it.next(); // "step"
        let kind = it
            .next()
            .ok_or_else(|| HarnessError("step without kind".into()))?;
        let name = it
            .next()
            .ok_or_else(|| HarnessError("step without name".into()))?;
        let mut args = Vec::new();
        for tok in it {
            if tok.is_empty() {
                continue;
            }
            let (t, v) = tok.split_at(2.min(tok.len()));
            let a = match t {
                "i:" => Arg::I(
                    v.parse::<i128>()
                        .map_err(|_| HarnessError(format!("bad int {}", v)))?,
                ),
                "b:" => Arg::B(unhex(v).ok_or_else(|| HarnessError(format!("bad hex {}", v)))?),
                "t:" => Arg::T(
                    String::from_utf8(
                        unhex(v).ok_or_else(|| HarnessError(format!("bad hex {}", v)))?,
                    )
                    .map_err(|_| HarnessError("bad utf-8 in text arg".into()))?,
                ),
                "s:" => Arg::S(v.to_string()),
                _ => return herr(format!("bad arg token {}", tok)),
            };
            args.push(a);
        }
        Ok(Step {
            kind: kind.into(),
            name: name.into(),
            args,
        })
    }
}

impl Trace {
    pub fn new(property: &str, seed: u64, run: u64) -> Trace {
        Trace {
            property: property.into(),
            seed,
            run,
            meta: vec![],
            steps: vec![],
        }
    }
    pub fn meta(&self, k: &str) -> Option<&str> {
        self.meta
            .iter()
            .find(|(kk, _)| kk == k)
            .map(|(_, v)| v.as_str())
    }
    pub fn meta_req(&self, k: &str) -> HResult<&str> {
        self.meta(k)
            .ok_or_else(|| HarnessError(format!("trace lacks meta key {}", k)))
    }
    pub fn set_meta(&mut self, k: &str, v: impl Into<String>) {
        let v = v.into();
        if let Some(e) = self.meta.iter_mut().find(|(kk, _)| kk == k) {
            e.1 = v;
        } else {
            self.meta.push((k.into(), v));
        }
    }
    pub fn push(&mut self, s: Step) {
        self.steps.push(s);
    }

    /// Replay-file text.  `invariant` and `detail` are recorded for the reader; `detail` is free
    /// text (single line).
    pub fn render(&self, invariant: &str, detail: &str) -> String {
        let mut s = String::new();
        s.push_str("cosim-replay 1\n");
        s.push_str(&format!("property={}\n", self.property));
        s.push_str(&format!("invariant={}\n", invariant));
        s.push_str(&format!("detail={}\n", detail.replace('\n', " ")));
        s.push_str(&format!("seed={}\n", self.seed));
        s.push_str(&format!("run={}\n", self.run));
        for (k, v) in &self.meta {
            s.push_str(&format!("meta {}={}\n", k, v));
        }
        for st in &self.steps {
            s.push_str(&st.render());
            s.push('\n');
        }
        s
    }

    /// Parse replay-file text; returns the trace and the recorded invariant id.
    pub fn parse(text: &str) -> HResult<(Trace, String)> {
        let mut lines = text.lines();
        match lines.next() {
            Some("cosim-replay 1") => {}
            other => return herr(format!("not a cosim replay file (first line {:?})", other)),
        }
        let mut t = Trace::default();
        let mut invariant = String::new();
        for line in lines {
            if line.is_empty() || line.starts_with('#') {
                continue;
            }
            if line.starts_with("step ") {
                t.steps.push(Step::parse(line)?);
            } else if let Some(rest) = line.strip_prefix("meta ") {
                let (k, v) = rest
                    .split_once('=')
                    .ok_or_else(|| HarnessError(format!("bad meta line {}", line)))?;
                t.meta.push((k.into(), v.into()));
            } else if let Some((k, v)) = line.split_once('=') {
                match k {
                    "property" => t.property = v.into(),
                    "invariant" => invariant = v.into(),
                    "detail" => {}
                    "seed" => t.seed = v.parse().map_err(|_| HarnessError("bad seed".into()))?,
                    "run" => t.run = v.parse().map_err(|_| HarnessError("bad run".into()))?,
                    _ => return herr(format!("unknown key {}", k)),
                }
            } else {
                return herr(format!("unparseable line {:?}", line));
            }
        }
        if t.property.is_empty() {
            return herr("replay file lacks property=");
        }
        Ok((t, invariant))
    }

    /// Stable hash of the whole trace (for distinct counting and the determinism self-test).
    pub fn hash(&self) -> u64 {
        let mut h = crate::util::Hasher64::new();
        h.str(&self.property);
        for (k, v) in &self.meta {
            if k == "config" {
                continue; // the same case under another build configuration is not a new case
            }
            h.str(k).str(v);
        }
        for s in &self.steps {
            h.str(&s.kind).str(&s.name);
            for a in &s.args {
                match a {
                    Arg::I(v) => h.u64(1).u64(*v as u64).u64((*v >> 64) as u64),
                    Arg::B(b) => h.u64(2).bytes(b),
                    Arg::T(t) => h.u64(3).str(t),
                    Arg::S(t) => h.u64(4).str(t),
                };
            }
        }
        h.finish()
    }

    /// Hash of the step-kind sequence only (history shape).
    pub fn shape_hash(&self) -> u64 {
        let mut h = crate::util::Hasher64::new();
        for (k, v) in &self.meta {
            h.str(k).str(v);
        }
        for s in &self.steps {
            h.str(&s.kind).str(&s.name);
        }
        h.finish()
    }

    pub fn summary(&self) -> String {
        let meta: Vec<String> = self
            .meta
            .iter()
            .map(|(k, v)| format!("{}={}", k, v))
            .collect();
        let steps: Vec<String> = self.steps.iter().map(|s| s.summary()).collect();
        format!(
            "run {} [{}] {}",
            self.run,
            meta.join(" "),
            steps.join(" ; ")
        )
    }
}

#[derive(Clone, Debug, PartialEq)]
pub struct Violation {
    /// invariant id of Appendix B, e.g. "C19.field(key_id)"
    pub invariant: String,
    pub detail: String,
    /// a narrower trace that reproduces the same violation (e.g. the single fault of an
    /// enumeration that failed); reported instead of the full trace when present
    pub narrowed: Option<Box<Trace>>,
}

impl Violation {
    pub fn new(invariant: impl Into<String>, detail: impl Into<String>) -> Violation {
        Violation {
            invariant: invariant.into(),
            detail: detail.into(),
            narrowed: None,
        }
    }
    pub fn narrowed(mut self, t: Trace) -> Violation {
        self.narrowed = Some(Box::new(t));
        self
    }
}
