//! Independent RFC 8949 reader / writer (definite and indefinite lengths), written for the
//! harness so that wire bytes can be located, rewritten and observed without trusting ciborium.
//! It is *not* used as a conformance oracle for coset's encodings.

use crate::rng::Rng;

#[derive(Clone, Debug, PartialEq)]
pub enum Kind {
    UInt(u64),
    /// value is -1 - n
    NInt(u64),
    Bytes(Vec<u8>),
    /// raw bytes of the text (validated as UTF-8 by the reader)
    Text(Vec<u8>),
    Array(Vec<Item>),
    Map(Vec<(Item, Item)>),
    Tag(u64, Box<Item>),
    Simple(u8),
    /// width in bytes (2, 4, 8) and raw bits
    Float(u8, u64),
}

#[derive(Clone, Debug, PartialEq)]
pub struct Item {
    pub kind: Kind,
    /// byte range of the whole item in the buffer it was read from (0,0 for constructed items)
    pub start: usize,
    pub end: usize,
    /// length of the initial head (initial byte + argument)
    pub head_len: usize,
    pub indefinite: bool,
}

impl Item {
    pub fn new(kind: Kind) -> Item {
        Item {
            kind,
            start: 0,
            end: 0,
            head_len: 0,
            indefinite: false,
        }
    }
    pub fn uint(v: u64) -> Item {
        Item::new(Kind::UInt(v))
    }
    pub fn int(v: i128) -> Item {
        if v >= 0 {
            Item::new(Kind::UInt(v as u64))
        } else {
            Item::new(Kind::NInt((-1 - v) as u64))
        }
    }
    pub fn bytes(b: &[u8]) -> Item {
        Item::new(Kind::Bytes(b.to_vec()))
    }
    pub fn text(s: &str) -> Item {
        Item::new(Kind::Text(s.as_bytes().to_vec()))
    }
    pub fn array(v: Vec<Item>) -> Item {
        Item::new(Kind::Array(v))
    }
    pub fn map(v: Vec<(Item, Item)>) -> Item {
        Item::new(Kind::Map(v))
    }
    pub fn tag(t: u64, i: Item) -> Item {
        Item::new(Kind::Tag(t, Box::new(i)))
    }
    pub fn null() -> Item {
        Item::new(Kind::Simple(22))
    }
    pub fn bool(b: bool) -> Item {
        Item::new(Kind::Simple(if b { 21 } else { 20 }))
    }
    pub fn as_int(&self) -> Option<i128> {
        match &self.kind {
            Kind::UInt(v) => Some(*v as i128),
            Kind::NInt(v) => Some(-1 - (*v as i128)),
            _ => None,
        }
    }
    pub fn as_bytes(&self) -> Option<&[u8]> {
        match &self.kind {
            Kind::Bytes(b) => Some(b),
            _ => None,
        }
    }
    pub fn as_array(&self) -> Option<&Vec<Item>> {
        match &self.kind {
            Kind::Array(a) => Some(a),
            _ => None,
        }
    }
    pub fn as_map(&self) -> Option<&Vec<(Item, Item)>> {
        match &self.kind {
            Kind::Map(a) => Some(a),
            _ => None,
        }
    }
    pub fn is_null(&self) -> bool {
        matches!(self.kind, Kind::Simple(22))
    }
    /// Number of items in the tree.
    pub fn count(&self) -> usize {
        1 + match &self.kind {
            Kind::Array(a) => a.iter().map(|x| x.count()).sum(),
            Kind::Map(m) => m.iter().map(|(k, v)| k.count() + v.count()).sum(),
            Kind::Tag(_, b) => b.count(),
            _ => 0,
        }
    }
}

#[derive(Clone, Debug, PartialEq)]
pub enum ReadError {
    Eof,
    Malformed(&'static str),
    TooDeep,
}

const MAX_DEPTH: usize = 600;

/// Read exactly one item from the front of `buf`; returns the item (its `end` is the number of
/// bytes consumed).
pub fn read_item(buf: &[u8]) -> Result<Item, ReadError> {
    read_at(buf, 0, 0)
}

/// Read one item and require that it spans the whole buffer.
pub fn read_exact(buf: &[u8]) -> Result<Item, ReadError> {
    let it = read_at(buf, 0, 0)?;
    if it.end != buf.len() {
        return Err(ReadError::Malformed("trailing bytes"));
    }
    Ok(it)
}

fn read_arg(buf: &[u8], pos: usize) -> Result<(u8, u8, Option<u64>, usize), ReadError> {
    // returns (major, additional info, argument or None for indefinite, head length)
    let ib = *buf.get(pos).ok_or(ReadError::Eof)?;
    let major = ib >> 5;
    let ai = ib & 0x1f;
    let need = match ai {
        0..=23 => 0,
        24 => 1,
        25 => 2,
        26 => 4,
        27 => 8,
        28..=30 => return Err(ReadError::Malformed("reserved additional info")),
        _ => {
            return Ok((major, ai, None, 1));
        }
    };
    if need == 0 {
        return Ok((major, ai, Some(ai as u64), 1));
    }
    if pos + 1 + need > buf.len() {
        return Err(ReadError::Eof);
    }
    let mut v: u64 = 0;
    for i in 0..need {
        v = (v << 8) | buf[pos + 1 + i] as u64;
    }
    Ok((major, ai, Some(v), 1 + need))
}

fn read_at(buf: &[u8], pos: usize, depth: usize) -> Result<Item, ReadError> {
    if depth > MAX_DEPTH {
        return Err(ReadError::TooDeep);
    }
    let (major, ai, arg, head_len) = read_arg(buf, pos)?;
    let mut p = pos + head_len;
    let mut indefinite = false;
    let kind = match major {
        0 => Kind::UInt(arg.ok_or(ReadError::Malformed("indefinite int"))?),
        1 => Kind::NInt(arg.ok_or(ReadError::Malformed("indefinite int"))?),
        2 | 3 => {
            let mut data = Vec::new();
            match arg {
                Some(n) => {
                    let n = usize::try_from(n).map_err(|_| ReadError::Eof)?;
                    if n > buf.len() - p {
                        return Err(ReadError::Eof);
                    }
                    data.extend_from_slice(&buf[p..p + n]);
                    p += n;
                }
                None => {
                    indefinite = true;
                    loop {
                        let b = *buf.get(p).ok_or(ReadError::Eof)?;
                        if b == 0xff {
                            p += 1;
                            break;
                        }
                        let (m2, _ai2, arg2, hl2) = read_arg(buf, p)?;
                        if m2 != major {
                            return Err(ReadError::Malformed("chunk of wrong type"));
                        }
                        let n = match arg2 {
                            Some(n) => n,
                            None => {
                                // a chunk that is itself an indefinite-length string: not
                                // well-formed (RFC 8949 3.2.3), but a CBOR layer that simply
                                // concatenates chunks accepts it, and the harness must be able to
                                // read whatever coset accepts
                                let inner = read_at(buf, p, depth + 1)?;
                                if let Kind::Bytes(d) | Kind::Text(d) = &inner.kind {
                                    data.extend_from_slice(d);
                                }
                                p = inner.end;
                                continue;
                            }
                        };
                        let n = usize::try_from(n).map_err(|_| ReadError::Eof)?;
                        p += hl2;
                        if n > buf.len() - p {
                            return Err(ReadError::Eof);
                        }
                        if major == 3 && std::str::from_utf8(&buf[p..p + n]).is_err() {
                            return Err(ReadError::Malformed("invalid utf-8 in chunk"));
                        }
                        data.extend_from_slice(&buf[p..p + n]);
                        p += n;
                    }
                }
            }
            if major == 3 {
                if std::str::from_utf8(&data).is_err() {
                    return Err(ReadError::Malformed("invalid utf-8"));
                }
                Kind::Text(data)
            } else {
                Kind::Bytes(data)
            }
        }
        4 => {
            let mut items = Vec::new();
            match arg {
                Some(n) => {
                    for _ in 0..n {
                        let it = read_at(buf, p, depth + 1)?;
                        p = it.end;
                        items.push(it);
                    }
                }
                None => {
                    indefinite = true;
                    loop {
                        let b = *buf.get(p).ok_or(ReadError::Eof)?;
                        if b == 0xff {
                            p += 1;
                            break;
                        }
                        let it = read_at(buf, p, depth + 1)?;
                        p = it.end;
                        items.push(it);
                    }
                }
            }
            Kind::Array(items)
        }
        5 => {
            let mut items = Vec::new();
            match arg {
                Some(n) => {
                    for _ in 0..n {
                        let k = read_at(buf, p, depth + 1)?;
                        let v = read_at(buf, k.end, depth + 1)?;
                        p = v.end;
                        items.push((k, v));
                    }
                }
                None => {
                    indefinite = true;
                    loop {
                        let b = *buf.get(p).ok_or(ReadError::Eof)?;
                        if b == 0xff {
                            p += 1;
                            break;
                        }
                        let k = read_at(buf, p, depth + 1)?;
                        let v = read_at(buf, k.end, depth + 1)?;
                        p = v.end;
                        items.push((k, v));
                    }
                }
            }
            Kind::Map(items)
        }
        6 => {
            let t = arg.ok_or(ReadError::Malformed("indefinite tag"))?;
            let inner = read_at(buf, p, depth + 1)?;
            p = inner.end;
            Kind::Tag(t, Box::new(inner))
        }
        _ => match ai {
            0..=23 => Kind::Simple(ai),
            24 => {
                let v = arg.unwrap() as u8;
                // RFC 8949 calls the two-byte form of a simple value below 32 not well-formed; the
                // CBOR layer under coset accepts f8 14..f8 17 as false / true / null / undefined,
                // so the harness reader follows it (the item remembers its two-byte head)
                Kind::Simple(v)
            }
            25 => Kind::Float(2, arg.unwrap()),
            26 => Kind::Float(4, arg.unwrap()),
            27 => Kind::Float(8, arg.unwrap()),
            _ => return Err(ReadError::Malformed("unexpected break")),
        },
    };
    Ok(Item {
        kind,
        start: pos,
        end: p,
        head_len,
        indefinite,
    })
}

/// Minimal-width head.
pub fn head(major: u8, v: u64) -> Vec<u8> {
    let w = if v < 24 {
        0
    } else if v <= 0xff {
        1
    } else if v <= 0xffff {
        2
    } else if v <= 0xffff_ffff {
        4
    } else {
        8
    };
    head_width(major, v, w).unwrap()
}

/// Head with an explicit argument width (0 = in the initial byte, 1, 2, 4, 8); None if `v` does
/// not fit.
pub fn head_width(major: u8, v: u64, width: u8) -> Option<Vec<u8>> {
    let m = major << 5;
    match width {
        0 => {
            if v < 24 {
                Some(vec![m | v as u8])
            } else {
                None
            }
        }
        1 => {
            if v <= 0xff {
                Some(vec![m | 24, v as u8])
            } else {
                None
            }
        }
        2 => {
            if v <= 0xffff {
                let mut o = vec![m | 25];
                o.extend_from_slice(&(v as u16).to_be_bytes());
                Some(o)
            } else {
                None
            }
        }
        4 => {
            if v <= 0xffff_ffff {
                let mut o = vec![m | 26];
                o.extend_from_slice(&(v as u32).to_be_bytes());
                Some(o)
            } else {
                None
            }
        }
        8 => {
            let mut o = vec![m | 27];
            o.extend_from_slice(&v.to_be_bytes());
            Some(o)
        }
        _ => None,
    }
}

/// Encoding choices for the writer.
pub trait EncChoice {
    /// Width for a head whose minimal width is `min` (0,1,2,4,8).
    fn width(&mut self, min: u8) -> u8;
    /// Use indefinite-length encoding for this string/array/map?
    fn indefinite(&mut self) -> bool;
    /// For an indefinite string, chunk sizes: return the size of the next chunk given `remaining`.
    fn chunk(&mut self, remaining: usize) -> usize;
}

pub struct Canonical;
impl EncChoice for Canonical {
    fn width(&mut self, min: u8) -> u8 {
        min
    }
    fn indefinite(&mut self) -> bool {
        false
    }
    fn chunk(&mut self, remaining: usize) -> usize {
        remaining
    }
}

/// Seeded non-canonical encoding choices (the `reencode` Byzantine fault).
pub struct Seeded<'a> {
    pub rng: &'a mut Rng,
    /// out of 16: chance of widening a head
    pub widen: u32,
    /// out of 16: chance of indefinite length
    pub indef: u32,
}
impl<'a> EncChoice for Seeded<'a> {
    fn width(&mut self, min: u8) -> u8 {
        if self.rng.chance(self.widen, 16) {
            let opts: &[u8] = match min {
                0 => &[1, 2, 4, 8],
                1 => &[2, 4, 8],
                2 => &[4, 8],
                4 => &[8],
                _ => &[8],
            };
            *self.rng.pick(opts)
        } else {
            min
        }
    }
    fn indefinite(&mut self) -> bool {
        self.rng.chance(self.indef, 16)
    }
    fn chunk(&mut self, remaining: usize) -> usize {
        if remaining <= 1 || self.rng.bool() {
            remaining
        } else {
            1 + self.rng.below(remaining)
        }
    }
}

fn min_width(v: u64) -> u8 {
    if v < 24 {
        0
    } else if v <= 0xff {
        1
    } else if v <= 0xffff {
        2
    } else if v <= 0xffff_ffff {
        4
    } else {
        8
    }
}

fn put_head(out: &mut Vec<u8>, major: u8, v: u64, enc: &mut dyn EncChoice) {
    let w = enc.width(min_width(v));
    let h = head_width(major, v, w).unwrap_or_else(|| head(major, v));
    out.extend_from_slice(&h);
}

pub fn write_item(it: &Item, out: &mut Vec<u8>, enc: &mut dyn EncChoice) {
    match &it.kind {
        Kind::UInt(v) => put_head(out, 0, *v, enc),
        Kind::NInt(v) => put_head(out, 1, *v, enc),
        Kind::Bytes(b) | Kind::Text(b) => {
            let major = if matches!(it.kind, Kind::Bytes(_)) {
                2
            } else {
                3
            };
            if enc.indefinite() {
                out.push((major << 5) | 31);
                let mut rest: &[u8] = b;
                while !rest.is_empty() {
                    let mut n = enc.chunk(rest.len()).clamp(1, rest.len());
                    if major == 3 {
                        // chunks of a text string must each be valid UTF-8
                        while n < rest.len() && (rest[n] & 0xC0) == 0x80 {
                            n += 1;
                        }
                    }
                    put_head(out, major, n as u64, enc);
                    out.extend_from_slice(&rest[..n]);
                    rest = &rest[n..];
                }
                out.push(0xff);
            } else {
                put_head(out, major, b.len() as u64, enc);
                out.extend_from_slice(b);
            }
        }
        Kind::Array(a) => {
            if enc.indefinite() {
                out.push(0x9f);
                for x in a {
                    write_item(x, out, enc);
                }
                out.push(0xff);
            } else {
                put_head(out, 4, a.len() as u64, enc);
                for x in a {
                    write_item(x, out, enc);
                }
            }
        }
        Kind::Map(m) => {
            if enc.indefinite() {
                out.push(0xbf);
                for (k, v) in m {
                    write_item(k, out, enc);
                    write_item(v, out, enc);
                }
                out.push(0xff);
            } else {
                put_head(out, 5, m.len() as u64, enc);
                for (k, v) in m {
                    write_item(k, out, enc);
                    write_item(v, out, enc);
                }
            }
        }
        Kind::Tag(t, inner) => {
            put_head(out, 6, *t, enc);
            write_item(inner, out, enc);
        }
        Kind::Simple(v) => {
            if *v < 24 && !((20..=22).contains(v) && enc.width(0) != 0 && enc.indefinite()) {
                out.push(0xe0 | *v);
            } else {
                out.push(0xf8);
                out.push(*v);
            }
        }
        Kind::Float(w, bits) => {
            // the encoder's choice: the width the item has, or a wider one holding the same value
            let (w, bits) = match (*w, enc.width(*w)) {
                (2, 4) => (4u8, (float_value(2, *bits) as f32).to_bits() as u64),
                (2, 8) => (8, float_value(2, *bits).to_bits()),
                (4, 8) => (8, float_value(4, *bits).to_bits()),
                _ => (*w, *bits),
            };
            match w {
                2 => {
                    out.push(0xf9);
                    out.extend_from_slice(&(bits as u16).to_be_bytes());
                }
                4 => {
                    out.push(0xfa);
                    out.extend_from_slice(&(bits as u32).to_be_bytes());
                }
                _ => {
                    out.push(0xfb);
                    out.extend_from_slice(&bits.to_be_bytes());
                }
            }
        }
    }
}

/// Half-precision bits to the double holding the same value (NaN payloads keep their position).
pub fn f16_to_f64(h: u16) -> f64 {
    let s = ((h >> 15) as u64) << 63;
    let e = ((h >> 10) & 0x1f) as u64;
    let m = (h & 0x3ff) as u64;
    match e {
        0 => {
            let v = (m as f64) * 2f64.powi(-24);
            f64::from_bits(v.to_bits() | s)
        }
        31 => f64::from_bits(s | (0x7ffu64 << 52) | (m << 42)),
        _ => f64::from_bits(s | ((e + 1023 - 15) << 52) | (m << 42)),
    }
}

/// Value of a float item of the given width as a double.
pub fn float_value(w: u8, bits: u64) -> f64 {
    match w {
        2 => f16_to_f64(bits as u16),
        4 => f32::from_bits(bits as u32) as f64,
        _ => f64::from_bits(bits),
    }
}

/// The narrowest float item (width, bits) that holds exactly this double, bit for bit when
/// widened again: what a shortest-form encoder writes.
pub fn shortest_float(bits: u64) -> (u8, u64) {
    let sign = (bits >> 63) << 15;
    let exp = ((bits >> 52) & 0x7ff) as i64;
    let man = bits & ((1u64 << 52) - 1);
    let h: u64 = if exp == 0x7ff {
        if man == 0 {
            sign | 0x7c00
        } else {
            sign | 0x7e00 | (man >> 42)
        }
    } else if exp == 0 {
        sign
    } else {
        let e = exp - 1023;
        if e > 15 {
            sign | 0x7c00
        } else if e >= -14 {
            sign | (((e + 15) as u64) << 10) | (man >> 42)
        } else if e >= -24 {
            let m = (1u64 << 52) | man;
            sign | (m >> (42 + (-14 - e)) as u32)
        } else {
            sign
        }
    };
    if f16_to_f64(h as u16).to_bits() == bits {
        return (2, h);
    }
    let f = f64::from_bits(bits) as f32;
    if (f as f64).to_bits() == bits {
        return (4, f.to_bits() as u64);
    }
    (8, bits)
}

pub fn encode(it: &Item) -> Vec<u8> {
    let mut out = Vec::new();
    write_item(it, &mut out, &mut Canonical);
    out
}

/// Enumerate paths (index lists) of every item in the tree, pre-order.  For maps the child index is
/// 2*i for the key and 2*i+1 for the value of entry i.
pub fn paths(it: &Item) -> Vec<Vec<usize>> {
    fn go(it: &Item, cur: &mut Vec<usize>, out: &mut Vec<Vec<usize>>) {
        out.push(cur.clone());
        match &it.kind {
            Kind::Array(a) => {
                for (i, x) in a.iter().enumerate() {
                    cur.push(i);
                    go(x, cur, out);
                    cur.pop();
                }
            }
            Kind::Map(m) => {
                for (i, (k, v)) in m.iter().enumerate() {
                    cur.push(2 * i);
                    go(k, cur, out);
                    cur.pop();
                    cur.push(2 * i + 1);
                    go(v, cur, out);
                    cur.pop();
                }
            }
            Kind::Tag(_, b) => {
                cur.push(0);
                go(b, cur, out);
                cur.pop();
            }
            _ => {}
        }
    }
    let mut out = Vec::new();
    go(it, &mut Vec::new(), &mut out);
    out
}

pub fn get_mut<'a>(it: &'a mut Item, path: &[usize]) -> Option<&'a mut Item> {
    if path.is_empty() {
        return Some(it);
    }
    let i = path[0];
    match &mut it.kind {
        Kind::Array(a) => a.get_mut(i).and_then(|x| get_mut(x, &path[1..])),
        Kind::Map(m) => m.get_mut(i / 2).and_then(|(k, v)| {
            if i % 2 == 0 {
                get_mut(k, &path[1..])
            } else {
                get_mut(v, &path[1..])
            }
        }),
        Kind::Tag(_, b) => {
            if i == 0 {
                get_mut(b, &path[1..])
            } else {
                None
            }
        }
        _ => None,
    }
}

pub fn get<'a>(it: &'a Item, path: &[usize]) -> Option<&'a Item> {
    if path.is_empty() {
        return Some(it);
    }
    let i = path[0];
    match &it.kind {
        Kind::Array(a) => a.get(i).and_then(|x| get(x, &path[1..])),
        Kind::Map(m) => m.get(i / 2).and_then(|(k, v)| {
            if i % 2 == 0 {
                get(k, &path[1..])
            } else {
                get(v, &path[1..])
            }
        }),
        Kind::Tag(_, b) => {
            if i == 0 {
                get(b, &path[1..])
            } else {
                None
            }
        }
        _ => None,
    }
}

/// Rewrite some `null` items as `undefined` (f7): to a CBOR layer that has no separate
/// "undefined" the two are the same value.
pub fn undefine(rng: &mut Rng, it: &mut Item, depth: usize) {
    if depth > 64 {
        return;
    }
    match &mut it.kind {
        Kind::Array(a) => a.iter_mut().for_each(|x| undefine(rng, x, depth + 1)),
        Kind::Map(m) => m.iter_mut().for_each(|(_, v)| undefine(rng, v, depth + 1)),
        Kind::Tag(_, b) => undefine(rng, b, depth + 1),
        Kind::Simple(22) if rng.bool() => it.kind = Kind::Simple(23),
        _ => {}
    }
}

/// Rewrite some integers of the tree as bignums (tag 2 / tag 3 around the big-endian magnitude).
pub fn bignumify(rng: &mut Rng, it: &mut Item, depth: usize) {
    if depth > 64 {
        return;
    }
    match &mut it.kind {
        Kind::Array(a) => a.iter_mut().for_each(|x| bignumify(rng, x, depth + 1)),
        Kind::Map(m) => m.iter_mut().for_each(|(k, v)| {
            bignumify(rng, k, depth + 1);
            bignumify(rng, v, depth + 1);
        }),
        Kind::Tag(_, b) => bignumify(rng, b, depth + 1),
        Kind::UInt(v) if rng.chance(1, 2) => {
            let bytes = v.to_be_bytes();
            let skip = bytes.iter().take_while(|b| **b == 0).count().min(7);
            *it = Item::tag(2, Item::bytes(&bytes[skip..]));
        }
        Kind::NInt(v) if rng.chance(1, 2) => {
            let bytes = v.to_be_bytes();
            let skip = bytes.iter().take_while(|b| **b == 0).count().min(7);
            *it = Item::tag(3, Item::bytes(&bytes[skip..]));
        }
        _ => {}
    }
}

/// A copy of the tree that differs from it in exactly one place (one node emptied, shortened,
/// lengthened, nudged, dropped or repeated); byte strings that hold CBOR are sometimes changed on
/// the inside instead.  Used to obtain values that are *nearly* equal to a given one.
pub fn near_copy(rng: &mut Rng, it: &Item, depth: usize) -> Item {
    let mut out = it.clone();
    let ps = paths(&out);
    let p = rng.pick(&ps).clone();
    if let Some(x) = get_mut(&mut out, &p) {
        mutate_node(rng, x, depth);
    }
    out
}

fn mutate_node(rng: &mut Rng, x: &mut Item, depth: usize) {
    match &mut x.kind {
        Kind::Bytes(b) => {
            if depth < 3 && !b.is_empty() && rng.bool() {
                if let Ok(inner) = read_exact(b) {
                    *b = encode(&near_copy(rng, &inner, depth + 1));
                    return;
                }
            }
            match rng.below(5) {
                0 => b.clear(),
                1 => {
                    if let Some(l) = b.last_mut() {
                        *l ^= 1
                    } else {
                        b.push(0)
                    }
                }
                2 => {
                    b.pop();
                }
                3 => {
                    if let Some(f) = b.first_mut() {
                        *f ^= 0x80
                    } else {
                        b.push(0xff)
                    }
                }
                _ => b.push(0),
            }
        }
        Kind::Text(t) => match rng.below(3) {
            0 => t.clear(),
            1 => t.push(b'a'),
            _ => {
                t.pop();
                while std::str::from_utf8(t).is_err() {
                    t.pop();
                }
            }
        },
        Kind::UInt(v) | Kind::NInt(v) => {
            *v = match rng.below(3) {
                0 => v.wrapping_add(1),
                1 => 0,
                _ => v.wrapping_sub(1),
            }
        }
        Kind::Array(a) => {
            if rng.bool() || a.is_empty() {
                a.pop();
            } else {
                let l = a[a.len() - 1].clone();
                a.push(l);
            }
        }
        Kind::Map(m) => match rng.below(3) {
            0 => {
                m.pop();
            }
            1 if m.len() >= 2 => {
                let n = m.len();
                m.swap(0, n - 1);
            }
            _ => m.push((Item::int(-70001), Item::bytes(&[]))),
        },
        Kind::Tag(t, _) => *t ^= 1,
        Kind::Simple(v) => *v = if *v == 20 { 21 } else { 20 },
        Kind::Float(_, bits) => *bits ^= 1,
    }
}

#[cfg(test)]
mod tests {
    use super::*;
    #[test]
    fn roundtrip() {
        let it = Item::array(vec![
            Item::uint(0),
            Item::int(-1),
            Item::int(-(1i128 << 64)),
            Item::uint(u64::MAX),
            Item::bytes(&[1, 2, 3]),
            Item::text("héllo"),
            Item::map(vec![(Item::uint(1), Item::null())]),
            Item::tag(18, Item::bool(true)),
            Item::new(Kind::Float(8, 1.5f64.to_bits())),
        ]);
        let b = encode(&it);
        let back = read_exact(&b).unwrap();
        assert_eq!(encode(&back), b);
        let mut rng = Rng::from_u64(7);
        for _ in 0..200 {
            let mut out = Vec::new();
            write_item(
                &it,
                &mut out,
                &mut Seeded {
                    rng: &mut rng,
                    widen: 6,
                    indef: 6,
                },
            );
            let again = read_exact(&out).unwrap();
            assert_eq!(encode(&again), b);
        }
    }
    #[test]
    fn floats() {
        assert_eq!(shortest_float(1.5f64.to_bits()), (2, 0x3e00));
        assert_eq!(shortest_float(0f64.to_bits()), (2, 0));
        assert_eq!(shortest_float((-0f64).to_bits()), (2, 0x8000));
        assert_eq!(shortest_float(f64::INFINITY.to_bits()), (2, 0x7c00));
        assert_eq!(shortest_float(0x7ff8_0000_0000_0000), (2, 0x7e00));
        assert_eq!(shortest_float(65504f64.to_bits()), (2, 0x7bff));
        assert_eq!(shortest_float(65505f64.to_bits()).0, 4);
        assert_eq!(shortest_float(2f64.powi(-24).to_bits()), (2, 1));
        assert_eq!(shortest_float(2f64.powi(-25).to_bits()).0, 4);
        assert_eq!(shortest_float(1e300f64.to_bits()).0, 8);
        assert_eq!(shortest_float(0.1f64.to_bits()).0, 8);
        assert_eq!(shortest_float((0.1f32 as f64).to_bits()).0, 4);
        for h in 0..=0xffffu16 {
            if (h >> 10) & 0x1f == 31 && h & 0x3ff != 0 && h & 0x200 == 0 {
                // signalling NaNs: a shortest-form encoder quiets them on the way down, so they
                // stay wide
                continue;
            }
            let v = f16_to_f64(h);
            assert_eq!(shortest_float(v.to_bits()), (2, h as u64), "{:04x}", h);
        }
    }
    #[test]
    fn rejects() {
        assert_eq!(read_item(&[0x18]), Err(ReadError::Eof));
        assert!(read_item(&[0x1c]).is_err());
        assert!(read_item(&[0xff]).is_err());
        assert!(read_item(&[0x7f, 0x7f, 0x61, 0x61, 0xff, 0xff]).is_ok());
        assert!(read_item(&[0x7f, 0x5f, 0x41, 0x61, 0xff, 0xff]).is_err());
        assert!(read_exact(&[0x00, 0x00]).is_err());
    }
}
