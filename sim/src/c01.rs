//! C01 - untrusted bytes never crash decoding or the processing that follows it.
//! Every delivery goes to all 31 endpoints; each endpoint runs on the node's 2 MiB stack under the
//! counting allocator; accepted values are cloned, compared, re-encoded, dropped and handed to
//! every helper whose documented precondition holds.  The oracle is survival: no panic, no
//! budget breach; stack overflow / abort / hang are seen by the supervisor as a dead node.

use crate::alloc;
use crate::c01gen::*;
use crate::common::guarded;
use crate::endpoints::*;
use crate::engine::*;
use crate::palette::bytes_palette;
use crate::rng::Rng;
use crate::trace::*;
use crate::util::{hash_bytes, hex_short, Hasher64};

pub struct C01;

pub const NODE_STACK: usize = 2 << 20;

const LIVE_BASE: usize = 64 << 10;
const LIVE_PER_BYTE: usize = 1024;
const TOTAL_BASE: usize = 64 << 10;
const TOTAL_PER_BYTE: usize = 4096;
/// allocation beyond this many live bytes is refused (the node then aborts)
const HARD_CAP: usize = 3 << 30;
/// One run index in 4096 is a scaling probe (spread over the whole range, hence over all workers).
const SCALING_EVERY: u64 = 4096;
const DECODE_FACTOR: u32 = 10;
const FOLLOWUP_FACTOR: u32 = 25;

/// CPU time consumed by the calling thread (CLOCK_THREAD_CPUTIME_ID).  Unlike wall-clock time it
/// does not grow while the thread is descheduled, so a loaded machine cannot fake a slow
/// operation.
#[derive(Clone, Copy)]
struct CpuInstant(std::time::Duration);

impl CpuInstant {
    fn now() -> CpuInstant {
        #[repr(C)]
        struct Timespec {
            tv_sec: i64,
            tv_nsec: i64,
        }
        extern "C" {
            fn clock_gettime(clk: i32, tp: *mut Timespec) -> i32;
        }
        let mut ts = Timespec {
            tv_sec: 0,
            tv_nsec: 0,
        };
        // 3 = CLOCK_THREAD_CPUTIME_ID on Linux
        let rc = unsafe { clock_gettime(3, &mut ts) };
        if rc != 0 {
            return CpuInstant(std::time::Duration::ZERO);
        }
        CpuInstant(std::time::Duration::new(
            ts.tv_sec as u64,
            ts.tv_nsec as u32,
        ))
    }
    fn elapsed(&self) -> std::time::Duration {
        CpuInstant::now().0.saturating_sub(self.0)
    }
}

fn size_cap(tier: Tier) -> usize {
    match tier {
        Tier::Quick => 64 << 10,
        Tier::Thorough => 1 << 20,
    }
}

struct Budget {
    live: usize,
    total: usize,
}

fn budget(handed: usize) -> Budget {
    Budget {
        live: LIVE_BASE + LIVE_PER_BYTE * handed,
        total: TOTAL_BASE + TOTAL_PER_BYTE * handed,
    }
}

/// Run one operation under panic capture and allocation accounting.
fn op<T>(
    st: &mut RunStats,
    what: &str,
    ep: &str,
    handed: usize,
    f: impl FnOnce() -> T,
) -> Result<T, Violation> {
    let base = alloc::begin();
    let r = guarded(f);
    let u = alloc::end(base);
    let b = budget(handed);
    st.inc("evaluations");
    if handed >= 4096 {
        st.max(
            "max:live_bytes_per_input_byte_x100(inputs>=4KiB)",
            (u.peak_live * 100 / handed) as u64,
        );
        st.max(
            "max:total_bytes_per_input_byte_x100(inputs>=4KiB)",
            (u.total * 100 / handed) as u64,
        );
    } else {
        st.max("max:live_bytes(inputs<4KiB)", u.peak_live as u64);
        st.max("max:total_bytes(inputs<4KiB)", u.total as u64);
    }
    match r {
        Err(p) => Err(Violation::new(
            "C01.panic",
            format!("{} at {}: {}", what, ep, p),
        )),
        Ok(v) => {
            if u.peak_live > b.live {
                return Err(Violation::new(
                    "C01.alloc-live",
                    format!("{} at {}: peak live allocation {} bytes for {} bytes handed in (budget {})", what, ep, u.peak_live, handed, b.live),
                ));
            }
            if u.total > b.total {
                return Err(Violation::new(
                    "C01.alloc-total",
                    format!("{} at {}: cumulative allocation {} bytes for {} bytes handed in (budget {})", what, ep, u.total, handed, b.total),
                ));
            }
            Ok(v)
        }
    }
}

/// Time envelope.  Absolute: 250 ms + 10 us per byte handed in.  Relative: 5 ms + FACTOR x the
/// reference cost of the same bytes, where the reference is the time coset's own `Value` decoder
/// needs for them plus 0.02 us per byte (a typed decoder also parses what `Value` merely copies,
/// e.g. protected-header byte strings, which is why the reference also parses every embedded
/// byte string that is itself CBOR).  Measured legitimate ratios on 32-80 kB worst shapes:
/// decode <= 1.7, follow-ups <= 5.4; the factors are 10 and 25.  All times are thread CPU time.  A breach is re-measured three times in this process and
/// only the minimum counts; the supervisor then re-executes the case alone in a fresh process and
/// silently drops a timing report that does not reproduce, so scheduling noise cannot raise an
/// alarm.
fn slow_check(
    st: &mut RunStats,
    what: &str,
    ep: &str,
    handed: usize,
    reference: std::time::Duration,
    factor: u32,
    first: std::time::Duration,
    again: impl FnMut(),
) -> Option<Violation> {
    let abs = std::time::Duration::from_micros(250_000 + 10 * handed as u64);
    let refc = reference + std::time::Duration::from_nanos(20 * handed as u64);
    let rel = std::time::Duration::from_millis(5) + refc * factor;
    let limit = abs.min(rel);
    st.max("max:op_micros", first.as_micros() as u64);
    if std::env::var_os("COSIM_TIMING").is_some() && first.as_micros() >= 500 {
        println!(
            "TIMING {} {} handed={} first_us={} ref_us={} ratio={:.1}",
            what,
            ep,
            handed,
            first.as_micros(),
            refc.as_micros(),
            first.as_nanos() as f64 / refc.as_nanos().max(1) as f64
        );
    }
    if first <= limit {
        return None;
    }
    st.inc("probe:slow-op-remeasured");
    let mut again = again;
    let mut best = first;
    for _ in 0..3 {
        let t = CpuInstant::now();
        again();
        let e = t.elapsed();
        if e < best {
            best = e;
        }
        if best <= limit {
            return None;
        }
    }
    Some(Violation::new(
        "C01.slow",
        format!(
            "{} at {}: {} us for {} bytes handed in (envelope {} us = min(250 ms + 10 us/byte, 5 ms + {} x reference {} us); minimum of 4 measurements)",
            what,
            ep,
            best.as_micros(),
            handed,
            limit.as_micros(),
            factor,
            refc.as_micros()
        ),
    ))
}

/// Scaling probe: the same shape at two sizes (about 1 : 4).  For every endpoint, the decode time
/// of the large input (best of 3) must not exceed 10 x the decode time of the small one (best of
/// 3) plus 3 ms: linear cost gives ~4 x (up to ~7 x with cache effects and n log n sets), quadratic
/// cost ~16 x.  Times below 3 ms are not judged.
fn scaling_check(
    st: &mut RunStats,
    small: &[u8],
    large: &[u8],
    only: Option<&str>,
) -> Option<Violation> {
    let best = |ep: &Endpoint, b: &[u8]| -> std::time::Duration {
        let mut best = std::time::Duration::from_secs(3600);
        for _ in 0..3 {
            let t = CpuInstant::now();
            let _ = guarded(|| (ep.decode)(b));
            best = best.min(t.elapsed());
        }
        best
    };
    for ep in endpoints() {
        if let Some(o) = only {
            if o != ep.name {
                continue;
            }
        }
        // one measurement first: most endpoints reject the shape at once
        let t0 = CpuInstant::now();
        let _ = guarded(|| (ep.decode)(large));
        if t0.elapsed().as_micros() < 3000 {
            continue;
        }
        let tl = best(ep, large);
        st.inc("probe:scaling-pairs-measured");
        if tl.as_micros() < 3000 {
            continue;
        }
        let ts = best(ep, small);
        let limit = ts * 10 + std::time::Duration::from_millis(3);
        // the small delivery may be refused at a glance where the large one is not (a different
        // carrier, an early syntax error): growth only counts when the large delivery also costs
        // well beyond what plainly parsing it costs
        let plain = {
            let mut b = std::time::Duration::from_secs(3600);
            for _ in 0..3 {
                let t = CpuInstant::now();
                let _ = guarded(|| deep_parse(large, 0));
                b = b.min(t.elapsed());
            }
            b
        };
        if tl > limit && tl > plain * 4 + std::time::Duration::from_millis(3) {
            // once more, to be sure
            let tl2 = best(ep, large).min(tl);
            let ts2 = best(ep, small).max(ts);
            if tl2 > ts2 * 10 + std::time::Duration::from_millis(3)
                && tl2 > plain * 4 + std::time::Duration::from_millis(3)
            {
                return Some(Violation::new(
                    "C01.slow",
                    format!(
                        "decode at {} does not scale linearly: {} bytes take {} us, {} bytes take {} us ({:.1} x for {:.1} x the input)",
                        ep.name,
                        small.len(),
                        ts2.as_micros(),
                        large.len(),
                        tl2.as_micros(),
                        tl2.as_nanos() as f64 / ts2.as_nanos().max(1) as f64,
                        large.len() as f64 / small.len().max(1) as f64
                    ),
                ));
            }
        }
    }
    None
}

/// Parse as `Value`; then parse every embedded byte string that is itself one CBOR item, to 24
/// levels of bstr nesting.
fn deep_parse(bytes: &[u8], level: usize) {
    use coset::cbor::value::Value;
    fn walk(v: &Value, level: usize, depth: usize) {
        if depth > 300 {
            return;
        }
        match v {
            Value::Bytes(b) if level < 24 && !b.is_empty() => deep_parse(b, level + 1),
            Value::Array(a) => a.iter().for_each(|x| walk(x, level, depth + 1)),
            Value::Map(m) => m.iter().for_each(|(k, x)| {
                walk(k, level, depth + 1);
                walk(x, level, depth + 1);
            }),
            Value::Tag(_, x) => walk(x, level, depth + 1),
            _ => {}
        }
    }
    if let Ok(v) = <Value as coset::CborSerializable>::from_slice(bytes) {
        walk(&v, level, 0);
    }
}

fn pick_indices_for(n: usize, handed: usize) -> Vec<usize> {
    // every index as long as the harness stays linear-ish (each helper call copies the payload and
    // headers: n x bytes handed in <= 4 MiB); otherwise first / last / spread indices
    if n <= 12 || n.saturating_mul(handed.max(1)) <= (4 << 20) {
        (0..n).collect()
    } else {
        let mut v = vec![0, 1, 2, n / 4, n / 2, 3 * n / 4, n - 3, n - 2, n - 1];
        v.dedup();
        v
    }
}

fn verifier_result(ok: bool) -> impl Fn(&[u8], &[u8]) -> Result<(), String> {
    move |_a, _b| {
        crate::common::layered_use();
        if ok {
            Ok(())
        } else {
            Err("verr".to_string())
        }
    }
}

fn decrypt_result(ok: bool) -> impl Fn(&[u8], &[u8]) -> Result<Vec<u8>, String> {
    move |a, _b| {
        crate::common::layered_use();
        if ok {
            Ok(a.to_vec())
        } else {
            Err("derr".to_string())
        }
    }
}

fn recipients_followup(
    st: &mut RunStats,
    ep: &str,
    rs: &[coset::CoseRecipient],
    aad: &[u8],
    ok: bool,
    handed: usize,
    depth: usize,
) -> Result<(), Violation> {
    for i in pick_indices_for(rs.len(), handed) {
        let r = &rs[i];
        if r.ciphertext.is_some() {
            for ctx in [
                coset::EncryptionContext::EncRecipient,
                coset::EncryptionContext::MacRecipient,
                coset::EncryptionContext::RecRecipient,
            ] {
                op(st, "recipient.decrypt", ep, handed, || {
                    let _ = r.decrypt(ctx, aad, decrypt_result(ok));
                })?;
            }
            st.inc("probe:helper:recipient.decrypt");
        }
        if depth < 200 {
            recipients_followup(st, ep, &r.recipients, aad, ok, handed, depth + 1)?;
        }
    }
    Ok(())
}

/// Comparison with values that are NOT equal to the decoded one: its hand-modified copies, and
/// what the same entry point makes of the delivered item changed in one place (nearly equal
/// values are the ones a comparison looks at longest).  Not part of the timed follow-ups: most of
/// the work here (building the other values) is the harness's own.
fn comparisons(
    st: &mut RunStats,
    ep: &Endpoint,
    d: &Decoded,
    bytes: &[u8],
) -> Result<(), Violation> {
    let len = bytes.len();
    if len <= 4096 {
        for (_, v) in d.variants() {
            op(st, "eq(variant)", ep.name, len, || {
                let _ = (*d == v, v == *d);
            })?;
        }
        if let Ok(item) = crate::refcbor::read_exact(bytes) {
            let mut rng = Rng::from_u64(crate::util::hash_bytes(bytes) ^ crate::rng::tag(ep.name));
            for _ in 0..6 {
                let near = crate::refcbor::encode(&crate::refcbor::near_copy(&mut rng, &item, 0));
                if let Ok(Ok(n)) = guarded(|| (ep.decode)(&near)) {
                    st.inc("probe:compared-with-a-nearly-equal-accepted-value");
                    op(st, "eq(near)", ep.name, len, || {
                        let _ = (*d == n, n == *d);
                    })?;
                }
            }
        }
    }
    Ok(())
}

/// Follow-up operations on an accepted value.
fn followups(
    st: &mut RunStats,
    ep: &Endpoint,
    d: &Decoded,
    bytes: &[u8],
    aad: &[u8],
    payload: &[u8],
    ok: bool,
) -> Result<(), Violation> {
    let len = bytes.len();
    let handed = len + aad.len() + payload.len();
    // clone, compare, re-encode, drop
    let c = op(st, "clone", ep.name, len, || d.clone())?;
    op(st, "eq", ep.name, len, || {
        let _ = c == *d;
    })?;
    let enc = op(st, "to_vec", ep.name, len, || c.to_vec())?;
    if enc.is_err() {
        st.inc("probe:accepted-value-does-not-encode");
    }
    if let Some(r) = op(st, "to_tagged_vec", ep.name, len, || c.to_tagged_vec())? {
        let _ = r;
    }
    op(st, "drop", ep.name, len, move || drop(c))?;
    let n = ep.name;
    match d {
        Decoded::Sign1(m) => {
            op(st, "tbs_data", n, handed, || {
                let _ = m.tbs_data(aad);
            })?;
            op(st, "verify_signature", n, handed, || {
                let _ = m.verify_signature(aad, verifier_result(ok));
            })?;
            st.inc("probe:helper:sign1.verify_signature");
            if m.payload.is_none() {
                op(st, "tbs_detached_data", n, handed, || {
                    let _ = m.tbs_detached_data(payload, aad);
                })?;
                op(st, "verify_detached_signature", n, handed, || {
                    let _ = m.verify_detached_signature(payload, aad, verifier_result(ok));
                })?;
                st.inc("probe:helper:sign1.verify_detached_signature");
            }
        }
        Decoded::Sign(m) => {
            for i in pick_indices_for(m.signatures.len(), handed) {
                op(st, "tbs_data", n, handed, || {
                    let _ = m.tbs_data(aad, &m.signatures[i]);
                })?;
                op(st, "verify_signature", n, handed, || {
                    let _ = m.verify_signature(i, aad, verifier_result(ok));
                })?;
                st.inc("probe:helper:sign.verify_signature");
                if m.payload.is_none() {
                    op(st, "tbs_detached_data", n, handed, || {
                        let _ = m.tbs_detached_data(payload, aad, &m.signatures[i]);
                    })?;
                    op(st, "verify_detached_signature", n, handed, || {
                        let _ = m.verify_detached_signature(i, payload, aad, verifier_result(ok));
                    })?;
                    st.inc("probe:helper:sign.verify_detached_signature");
                }
            }
        }
        Decoded::Mac(m) => {
            if m.payload.is_some() {
                op(st, "verify_tag", n, handed, || {
                    let _ = m.verify_tag(aad, verifier_result(ok));
                })?;
                st.inc("probe:helper:mac.verify_tag");
            }
            recipients_followup(st, n, &m.recipients, aad, ok, handed, 0)?;
        }
        Decoded::Mac0(m) => {
            if m.payload.is_some() {
                op(st, "verify_tag", n, handed, || {
                    let _ = m.verify_tag(aad, verifier_result(ok));
                })?;
                st.inc("probe:helper:mac0.verify_tag");
            }
        }
        Decoded::Encrypt(m) => {
            if m.ciphertext.is_some() {
                op(st, "decrypt", n, handed, || {
                    let _ = m.decrypt(aad, decrypt_result(ok));
                })?;
                st.inc("probe:helper:encrypt.decrypt");
            }
            recipients_followup(st, n, &m.recipients, aad, ok, handed, 0)?;
        }
        Decoded::Encrypt0(m) => {
            if m.ciphertext.is_some() {
                op(st, "decrypt", n, handed, || {
                    let _ = m.decrypt(aad, decrypt_result(ok));
                })?;
                st.inc("probe:helper:encrypt0.decrypt");
            }
        }
        Decoded::Recipient(m) => {
            recipients_followup(st, n, std::slice::from_ref(m), aad, ok, handed, 0)?;
        }
        Decoded::Signature(s) => {
            // a bare COSE_Signature is what a counter-signature verifier hands to the general
            // structure function
            op(st, "sig_structure_data", n, handed, || {
                let _ = coset::sig_structure_data(
                    coset::SignatureContext::CounterSignature,
                    s.protected.clone(),
                    Some(s.protected.clone()),
                    aad,
                    payload,
                );
            })?;
        }
        Decoded::Protected(p) => {
            op(st, "enc_structure_data", n, handed, || {
                let _ = coset::enc_structure_data(
                    coset::EncryptionContext::CoseEncrypt0,
                    p.clone(),
                    aad,
                );
            })?;
            op(st, "mac_structure_data", n, handed, || {
                let _ =
                    coset::mac_structure_data(coset::MacContext::CoseMac0, p.clone(), aad, payload);
            })?;
        }
        _ => {}
    }
    Ok(())
}

impl Engine for C01 {
    fn id(&self) -> &'static str {
        "C01"
    }
    fn info(&self) -> EngineInfo {
        EngineInfo {
            level: "exploration",
            rule: "Each run is one delivery: valid traffic of one of 24 type families (reference-encoded, sometimes tagged) hit by 0-3 seeded byte-level faults (cut, append, dup, coalesce, flip, set, del, ins, splice, head-inflate, tag-rewrite) and with probability 1/4 a Byzantine-peer fault (subtree substitution from a palette of every CBOR kind, re-encoding with non-minimal heads / indefinite lengths / bignum tags / odd floats / extra tags); 1 run in 6 is instead a nesting case along one of 16 axes (counter-signatures in protected and unprotected headers, recipients, every CBOR-level nesting kind, mixtures, wide siblings) with depth log-uniform up to the size cap; 1 in 24 is random bytes; one run index in 4096 is a scaling probe (one wide or nested shape at 32 and 128 KiB - 128 and 512 KiB in the thorough tier - whose decode time at every endpoint must grow about linearly). The delivered bytes go to ALL 31 endpoints on a 2 MiB-stack node thread; every accepted value is cloned, compared, re-encoded (tagged too), dropped and handed to every helper whose documented precondition holds with seeded AAD / detached payload / verifier result. evaluations = operations executed (decodes + follow-ups). Non-trivial = delivered bytes that are non-empty and differ from every other delivery; distinct = distinct delivered byte strings (64-bit hash).",
            distinct_classes: &["(endpoint, outcome class, first fault kind) triples", "fault-kind multisets"],
            assumptions: &[
                "'ordinary thread stack' = Rust's default 2 MiB for spawned threads, release-profile code generation (overflow checks and debug assertions on)",
                "'memory proportional to the input' = peak live <= 64 KiB + 1024 x bytes handed in and cumulative <= 64 KiB + 4096 x bytes handed in, per operation (measured worst legitimate shapes: COSE_Sign with 10^4 minimal signers 206x live / 432x cumulative, ~270x / ~550x at the worst Vec-doubling point; margins ~4x and ~7x)",
                "signer / recipient indices: every index while (count x bytes handed in) <= 4 MiB, otherwise 9 spread indices (each helper call copies payload and headers, so all indices on large inputs would make the harness quadratic)",
                "sampled neighbourhood of valid traffic and the nesting axes, not all byte strings; inputs up to 64 KiB (quick) / 1 MiB (thorough)",
                "std-feature configuration: the same engine built with coset/std runs a quarter of the run indices again",
            ],
            real_components: &["all 31 coset decoding entry points, Clone/PartialEq/Drop, encoders, tbs/verify/MAC/decrypt helpers, ciborium underneath (real code)", "node environment: real 2 MiB thread stack, real allocator behind a counting wrapper, real process death"],
            stub_components: &["originators and wire (harness)", "verifier / cipher closures"],
            fault_kinds: &["cut", "append", "dup", "coalesce", "flip", "set", "del", "ins", "splice", "head-inflate", "tag-rewrite", "subst", "reencode", "nest(16 axes)", "random-bytes", "misdeliver(all 31 endpoints)", "stack(2 MiB)", "alloc-budget", "feature(std on/off)", "verifier-result", "scaling-probe (same shape at S and 4S)"],
            design_ref: "DESIGN.md section 5.1, 7, Appendix D",
        }
    }
    fn runs(&self, tier: Tier) -> u64 {
        match tier {
            Tier::Quick => 400_000,
            Tier::Thorough => 4_000_000,
        }
    }
    fn batch(&self) -> u64 {
        64
    }
    fn stack_size(&self) -> usize {
        NODE_STACK
    }
    fn watchdog_secs(&self) -> u64 {
        90
    }
    fn death_invariant(&self) -> String {
        "C01.node-died".into()
    }
    fn gen(&self, seed: u64, run: u64, tier: Tier) -> Trace {
        let mut rng = Rng::for_run(seed, run, "C01");
        let mut t = Trace::new("C01", seed, run);
        if run % SCALING_EVERY == SCALING_EVERY / 2 {
            // scaling probe: the same shape at size S and 4S; cost must grow about linearly
            let (s_small, s_large) = match tier {
                Tier::Quick => (32 << 10, 128 << 10),
                Tier::Thorough => (128 << 10, 512 << 10),
            };
            let wide = (run / SCALING_EVERY) % 2 == 0;
            let mut r1 = rng.clone();
            let mut r2 = rng.clone();
            let (small, large, what) = if wide {
                let (a, ty) = gen_wide(&mut r1, s_small, true);
                let (b, _) = gen_wide(&mut r2, s_large, true);
                (a, b, format!("wide:{}", ty))
            } else {
                let a = gen_nest_opt(&mut r1, s_small, true);
                let b = gen_nest_opt(&mut r2, s_large, true);
                let w = a.faults.join("+");
                (a.bytes, b.bytes, w)
            };
            t.set_meta("base", what);
            t.set_meta("faults", "scaling-probe");
            t.push(Step::new("deliver", "small", vec![Arg::B(small)]));
            t.push(Step::new("deliver", "bytes", vec![Arg::B(large)]));
            t.push(Step::new(
                "plan",
                "followup",
                vec![Arg::B(vec![]), Arg::B(vec![]), Arg::I(1)],
            ));
            return t;
        }
        let cap = size_cap(tier);
        // large inputs are rare: they cost ~0.1 s per endpoint
        let cap = if rng.chance(1, 512) {
            cap
        } else {
            cap.min(8 << 10)
        };
        // 1 run in 1000 fills the whole size cap with siblings, 1 in 1000 with nesting: cost that
        // grows faster than the input only shows on large inputs
        let full = size_cap(tier);
        let c = match rng.below(1000) {
            0 => {
                let (bytes, ty) = gen_wide(&mut rng, full, true);
                Case {
                    bytes,
                    faults: vec!["nest(wide-siblings)".into(), "full-size".into()],
                    base_type: ty.to_string(),
                    depth: None,
                }
            }
            1 => {
                let deep = rng.bool();
                let mut c = gen_nest_opt(&mut rng, full, deep);
                c.faults.push("full-size".into());
                c
            }
            _ => gen_case(&mut rng, cap),
        };
        t.set_meta("base", c.base_type.clone());
        t.set_meta(
            "faults",
            if c.faults.is_empty() {
                "none".to_string()
            } else {
                c.faults.join("+")
            },
        );
        if let Some(d) = c.depth {
            t.set_meta("depth", d.to_string());
        }
        let bp = bytes_palette();
        let aad = bp[rng.weighted(&[10, 6, 10, 4, 4, 4, 2, 2, 1, 0, 0])].clone();
        let payload = bp[rng.weighted(&[10, 6, 10, 4, 4, 4, 2, 2, 1, 1, 0])].clone();
        t.push(Step::new("deliver", "bytes", vec![Arg::B(c.bytes)]));
        t.push(Step::new(
            "plan",
            "followup",
            vec![Arg::B(aad), Arg::B(payload), Arg::I(rng.bool() as i128)],
        ));
        t
    }
    fn step_is_fixed(&self, _t: &Trace, _idx: usize) -> bool {
        true
    }
    fn shrink(&self, t: &Trace) -> Vec<Trace> {
        // restrict to one endpoint, then shorten the delivered bytes
        let mut out = Vec::new();
        if t.meta("only").is_none() {
            for ep in endpoints() {
                let mut c = t.clone();
                c.set_meta("only", ep.name);
                out.push(c);
            }
        }
        if let Some(Step { args, .. }) = t.steps.iter().find(|s| s.kind == "deliver") {
            if let Some(Arg::B(b)) = args.first() {
                let mut push = |nb: Vec<u8>| {
                    let mut c = t.clone();
                    for s in c.steps.iter_mut() {
                        if s.kind == "deliver" {
                            s.args[0] = Arg::B(nb.clone());
                        }
                    }
                    out.push(c);
                };
                if b.len() > 1 {
                    push(b[..b.len() / 2].to_vec());
                    push(b[..b.len() - 1].to_vec());
                    push(b[1..].to_vec());
                }
            }
        }
        for (si, s) in t.steps.iter().enumerate() {
            if s.kind == "plan" {
                for ai in 0..2 {
                    if let Some(Arg::B(b)) = s.args.get(ai) {
                        if !b.is_empty() {
                            let mut c = t.clone();
                            c.steps[si].args[ai] = Arg::B(vec![]);
                            out.push(c);
                        }
                    }
                }
            }
        }
        out
    }
    fn exec(&self, t: &Trace, st: &mut RunStats) -> HResult<Option<Violation>> {
        let bytes = t
            .steps
            .iter()
            .find(|s| s.kind == "deliver" && s.name != "small")
            .ok_or_else(|| HarnessError("no deliver step".into()))?
            .bytes(0)?
            .to_vec();
        let plan = t.steps.iter().find(|s| s.kind == "plan");
        let (aad, payload, ok) = match plan {
            Some(p) => (p.bytes(0)?.to_vec(), p.bytes(1)?.to_vec(), p.int(2)? == 1),
            None => (vec![], vec![], true),
        };
        let only = t.meta("only").map(|s| s.to_string());
        let faults = t.meta("faults").unwrap_or("none").to_string();
        let first_fault = faults.split('+').next().unwrap_or("none").to_string();
        alloc::set_hard_cap(HARD_CAP);
        st.inc("deliveries");
        st.add("delivered_bytes", bytes.len() as u64);
        st.max("max:delivered_len", bytes.len() as u64);
        for f in faults.split('+') {
            st.inc(&format!("fault:{}", f));
        }
        if faults == "none" {
            st.inc("runs:fault-free");
        } else {
            st.inc("runs:faulted");
        }
        if !bytes.is_empty() {
            st.distinct(0, hash_bytes(&bytes));
        }
        {
            let mut fk: Vec<&str> = faults.split('+').collect();
            fk.sort();
            let mut h = Hasher64::new();
            for f in fk {
                h.str(f);
            }
            st.distinct(2, h.finish());
        }
        if faults == "scaling-probe" {
            if let Some(small) = t
                .steps
                .iter()
                .find(|s| s.kind == "deliver" && s.name == "small")
            {
                let small = small.bytes(0)?.to_vec();
                if let Some(v) = scaling_check(st, &small, &bytes, only.as_deref()) {
                    return Ok(Some(v));
                }
            }
        }
        // reference cost of these bytes: coset's plain Value decoder applied to the bytes and,
        // recursively, to every byte string inside that is itself CBOR (a typed decoder parses
        // protected headers where `Value` merely copies them); best of two
        let reference = {
            let mut best = std::time::Duration::from_secs(3600);
            for _ in 0..2 {
                let t = CpuInstant::now();
                let _ = guarded(|| deep_parse(&bytes, 0));
                best = best.min(t.elapsed());
            }
            best
        };
        let mut accepted_any = false;
        for ep in endpoints() {
            if let Some(o) = &only {
                if o != ep.name {
                    continue;
                }
            }
            let t0 = CpuInstant::now();
            let r = match op(st, "decode", ep.name, bytes.len(), || (ep.decode)(&bytes)) {
                Ok(r) => r,
                Err(v) => return Ok(Some(v)),
            };
            if let Some(v) = slow_check(
                st,
                "decode",
                ep.name,
                bytes.len(),
                reference,
                DECODE_FACTOR,
                t0.elapsed(),
                || {
                    let _ = guarded(|| (ep.decode)(&bytes));
                },
            ) {
                return Ok(Some(v));
            }
            let class = match &r {
                Ok(_) => "accepted",
                Err(e) => err_class(e),
            };
            {
                let mut h = Hasher64::new();
                h.str(ep.name).str(class).str(&first_fault);
                st.distinct(1, h.finish());
            }
            match r {
                Ok(d) => {
                    st.inc("outcome:accepted");
                    if faults != "none" && ep.ty != "Value" {
                        accepted_any = true;
                    }
                    if ep.ty != "Value" && faults.starts_with("nest(") && !faults.contains('+') {
                        if let Some(depth) = t.meta("depth").and_then(|d| d.parse::<u64>().ok()) {
                            st.max(&format!("max:accepted-depth:{}", first_fault), depth);
                        }
                    }
                    let t1 = CpuInstant::now();
                    if let Err(v) = followups(st, ep, &d, &bytes, &aad, &payload, ok) {
                        return Ok(Some(v));
                    }
                    let handed = bytes.len() + aad.len() + payload.len();
                    let el = t1.elapsed();
                    let mut scratch = RunStats::default();
                    if let Some(v) = slow_check(
                        st,
                        "follow-up operations",
                        ep.name,
                        handed,
                        reference,
                        FOLLOWUP_FACTOR,
                        el,
                        || {
                            let _ = followups(&mut scratch, ep, &d, &bytes, &aad, &payload, ok);
                        },
                    ) {
                        return Ok(Some(v));
                    }
                    if let Err(v) = comparisons(st, ep, &d, &bytes) {
                        return Ok(Some(v));
                    }
                    if let Err(v) = op(st, "drop", ep.name, bytes.len(), move || drop(d)) {
                        return Ok(Some(v));
                    }
                }
                Err(e) => {
                    st.inc(&format!("outcome:{}", err_class(&e)));
                }
            }
        }
        if accepted_any {
            st.inc("probe:corrupted-but-accepted(non-Value endpoint)");
        }
        alloc::set_hard_cap(0);
        Ok(None)
    }
    fn finding_key(&self, t: &Trace, invariant: &str) -> String {
        let faults = t.meta("faults").unwrap_or("none");
        let first = faults.split('+').next().unwrap_or("none");
        format!("{}:{}", invariant, first)
    }
}

#[allow(dead_code)]
fn _unused(b: &[u8]) -> String {
    hex_short(b)
}
