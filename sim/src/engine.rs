//! Engine interface shared by all properties.

use crate::trace::{HResult, Trace, Violation};
use crate::util::Counters;

#[derive(Clone, Copy, Debug, PartialEq, Eq)]
pub enum Tier {
    Quick,
    Thorough,
}

impl Tier {
    pub fn name(&self) -> &'static str {
        match self {
            Tier::Quick => "quick",
            Tier::Thorough => "thorough",
        }
    }
    pub fn parse(s: &str) -> Option<Tier> {
        match s {
            "quick" => Some(Tier::Quick),
            "thorough" => Some(Tier::Thorough),
            _ => None,
        }
    }
}

/// What a run reports besides pass/fail.
#[derive(Default)]
pub struct RunStats {
    pub counters: Counters,
    /// (class, hash): class 0 = distinct non-trivial cases (evidence `distinct_nontrivial`),
    /// other classes = engine-specific reach measures (unioned across workers and counted).
    pub distinct: Vec<(u8, u64)>,
}

impl RunStats {
    pub fn inc(&mut self, k: &str) {
        self.counters.inc(k);
    }
    pub fn add(&mut self, k: &str, n: u64) {
        self.counters.add(k, n);
    }
    pub fn max(&mut self, k: &str, n: u64) {
        self.counters.max(k, n);
    }
    pub fn distinct(&mut self, class: u8, h: u64) {
        self.distinct.push((class, h));
    }
}

pub struct EngineInfo {
    pub level: &'static str,
    pub rule: &'static str,
    /// names of the distinct classes 1.. (class 0 is `distinct_nontrivial`)
    pub distinct_classes: &'static [&'static str],
    pub assumptions: &'static [&'static str],
    pub real_components: &'static [&'static str],
    pub stub_components: &'static [&'static str],
    pub fault_kinds: &'static [&'static str],
    pub design_ref: &'static str,
}

/// One build/environment configuration a check runs under.
#[derive(Clone, Debug)]
pub struct Config {
    pub name: &'static str,
    /// worker executable (None = this executable)
    pub exe: Option<&'static str>,
    /// this configuration executes run indices [0, runs * num / den)
    pub share: (u64, u64),
}

pub trait Engine: Sync + Send {
    /// Every check runs under two builds of coset: without the `std` cargo feature (all run
    /// indices) and with it (the first quarter of the run indices again, executed by the second
    /// harness binary).
    fn configurations(&self) -> Vec<Config> {
        vec![
            Config {
                name: "std:off",
                exe: None,
                share: (1, 1),
            },
            Config {
                name: "std:on",
                exe: Some(std_exe()),
                share: (1, 4),
            },
        ]
    }
    fn id(&self) -> &'static str;
    fn info(&self) -> EngineInfo;
    /// Number of runs of this tier (fixed, so the exploration is a function of the seed alone).
    fn runs(&self, tier: Tier) -> u64;
    /// Runs per progress line.
    fn batch(&self) -> u64 {
        256
    }
    /// Stack size of the thread executing runs.
    fn stack_size(&self) -> usize {
        64 << 20
    }
    /// Seconds without progress before the supervisor declares a hang.
    fn watchdog_secs(&self) -> u64 {
        120
    }
    /// Materialise the decisions of run `run`.
    fn gen(&self, seed: u64, run: u64, tier: Tier) -> Trace;
    /// Execute a trace against the real code and the oracle.
    fn exec(&self, t: &Trace, st: &mut RunStats) -> HResult<Option<Violation>>;
    /// Candidate argument-level simplifications of a failing trace (step deletion is generic).
    fn shrink(&self, _t: &Trace) -> Vec<Trace> {
        vec![]
    }
    /// Steps that the generic minimiser must not delete.
    fn step_is_fixed(&self, _t: &Trace, _idx: usize) -> bool {
        false
    }
    /// Stable key of a (minimised) failing trace for the known-findings file.
    fn finding_key(&self, _t: &Trace, invariant: &str) -> String {
        invariant.to_string()
    }
    /// Invariant id used when the process executing a run dies.
    fn death_invariant(&self) -> String {
        format!("{}.worker-died", self.id())
    }
    /// Optional extra self-checks before the runs start (harness errors only).
    fn startup_check(&self) -> Result<(), String> {
        Ok(())
    }
    /// Samples to print into evidence: by default the summaries of the first few traces.
    fn sample_runs(&self) -> u64 {
        3
    }
}

/// Path of the harness binary built with coset's `std` feature (COSIM_STD_EXE overrides it, for
/// sweeps that run from a private copy of the binaries).
pub fn std_exe() -> &'static str {
    static P: std::sync::OnceLock<String> = std::sync::OnceLock::new();
    P.get_or_init(|| {
        std::env::var("COSIM_STD_EXE")
            .unwrap_or_else(|_| "/verif/target/std/plain/cosim".to_string())
    })
}
