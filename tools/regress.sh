#!/bin/sh
# Re-run every stored seeded change and every mutant against the quick tier of its check.
# Prints one line per item; exit 1 if any property-breaking item is missed or a "silent" one is flagged.
# usage: tools/regress.sh [seeds|mutants]   (default: both); every item is given 15 minutes at most
what="${1:-both}"
bad=0
for d in /verif/seeded/*/; do
    [ "$what" = mutants ] && break
    n=$(basename "$d")
    prop=$(python3 -c "import json,sys; print(json.load(open('$d/meta.json'))['property'])")
    out=$(timeout 900 python3 /verif/tools/seed_eval.py "$n" "$prop" 2>&1 | grep -aE "check $prop")
    git -C /repo checkout -- . 2>/dev/null
    echo "seed $n $out"
    case "$out" in *CAUGHT*) ;; *) bad=1 ;; esac
done
for p in /verif/mutants/*.patch; do
    [ "$what" = seeds ] && break
    b=$(basename "$p" .patch)
    case "$b" in
        silent-*) prop=C01; want=MISSED ;;
        *) prop=$(echo "$b" | cut -c1-3 | tr a-z A-Z); want=CAUGHT ;;
    esac
    out=$(timeout 900 /verif/tools/sensitivity.sh "$p" "$prop" quick 2>&1 | tail -1)
    git -C /repo checkout -- . 2>/dev/null
    echo "mutant $out"
    case "$out" in *$want*) ;; *) bad=1 ;; esac
done
rm -f /verif/replays/*.replay
exit $bad
