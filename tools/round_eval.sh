#!/bin/sh
# usage: tools/round_eval.sh "A1 C01" "A2 C06" ...   - evaluate several seeds, one summary block each
for pair in "$@"; do
    set -- $pair
    python3 /verif/tools/seed_eval.py "$1" "$2" 2>&1 | grep -E "^\[|^      invariant|history-dependent" | cut -c1-330
done
