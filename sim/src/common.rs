//! Helpers shared by the engines: argument encodings for sub-objects, panic capture.

use crate::model::*;
use crate::palette::*;
use crate::rng::Rng;
use crate::trace::{herr, Arg, HResult, Step};
use std::cell::RefCell;
use std::panic::{catch_unwind, AssertUnwindSafe};

thread_local! {
    static LAST_PANIC: RefCell<String> = const { RefCell::new(String::new()) };
}

/// Install a panic hook that records the message instead of printing it.
pub fn install_quiet_panic_hook() {
    std::panic::set_hook(Box::new(|info| {
        let msg = if let Some(s) = info.payload().downcast_ref::<&str>() {
            s.to_string()
        } else if let Some(s) = info.payload().downcast_ref::<String>() {
            s.clone()
        } else {
            "<non-string panic payload>".to_string()
        };
        let loc = info
            .location()
            .map(|l| format!("{}:{}", l.file(), l.line()))
            .unwrap_or_default();
        let full = format!("{} at {}", msg, loc);
        if full.contains("harness:") {
            eprintln!("{}", full);
        }
        LAST_PANIC.with(|p| *p.borrow_mut() = full);
    }));
}

pub fn last_panic() -> String {
    LAST_PANIC.with(|p| p.borrow().clone())
}

/// Run `f`, turning a panic into Err(message).
pub fn guarded<T>(f: impl FnOnce() -> T) -> Result<T, String> {
    match catch_unwind(AssertUnwindSafe(f)) {
        Ok(v) => Ok(v),
        Err(_) => Err(last_panic()),
    }
}

pub fn opt_bytes_arg(b: &Option<Vec<u8>>) -> Arg {
    match b {
        Some(b) => Arg::B(b.clone()),
        None => Arg::S("none".into()),
    }
}

pub fn opt_bytes_from(step: &Step, i: usize) -> HResult<Option<Vec<u8>>> {
    match step.args.get(i) {
        Some(Arg::B(b)) => Ok(Some(b.clone())),
        Some(Arg::S(s)) if s == "none" => Ok(None),
        other => herr(format!(
            "step {}: arg {} should be bytes or none, got {:?}",
            step.name, i, other
        )),
    }
}

pub fn header_by_idx(i: usize) -> HResult<MHeader> {
    header_palette().get(i).cloned().ok_or_else(|| {
        crate::trace::HarnessError(format!("header palette index {} out of range", i))
    })
}

/// A value argument is either a palette index (int) or the harness CBOR encoding of the value.
pub fn value_from_arg(step: &Step, i: usize) -> HResult<MValue> {
    match step.args.get(i) {
        Some(Arg::I(_)) => value_by_idx(step.usize(i)?),
        Some(Arg::B(b)) => {
            let it = crate::refcbor::read_exact(b).map_err(|e| {
                crate::trace::HarnessError(format!("value argument is not CBOR: {:?}", e))
            })?;
            Ok(MValue::from_item(&it))
        }
        other => herr(format!(
            "step {}: arg {} should be a value, got {:?}",
            step.name, i, other
        )),
    }
}

/// Seeded value of arbitrary shape (scalars of every kind, short arrays and maps, tags).
pub fn gen_any_value(rng: &mut Rng, depth: usize) -> MValue {
    let k = if depth >= 3 {
        rng.below(7)
    } else {
        rng.below(10)
    };
    match k {
        0 => MValue::Int((rng.next_u64() as i64 >> rng.below(64)) as i128),
        1 => {
            let n = *rng.pick(&[0usize, 1, 2, 8, 16, 32, 33, 64, 300]);
            MValue::Bytes(rng.bytes(n))
        }
        2 => MValue::Text(["", "a", "x5chain", "text/plain", "é"][rng.below(5)].to_string()),
        3 => MValue::Bool(rng.bool()),
        4 => MValue::Null,
        5 => MValue::Int(rng.below(25) as i128 - 5),
        6 => MValue::Float(float_bits(rng)),
        7 => MValue::Array(
            (0..rng.below(4))
                .map(|_| gen_any_value(rng, depth + 1))
                .collect(),
        ),
        8 => MValue::Map(
            (0..rng.below(3))
                .map(|i| (MValue::Int(i as i128), gen_any_value(rng, depth + 1)))
                .collect(),
        ),
        _ => MValue::Tag(
            *rng.pick(&[0u64, 1, 2, 24, 32, 37, 55799]),
            Box::new(gen_any_value(rng, depth + 1)),
        ),
    }
}

/// A (label, value) pair in the style of the IANA registries' non-reserved entries: a registered
/// header parameter / key parameter / claim number together with one of the value shapes such
/// entries take (certificate bags and chains, thumbprints, URIs, nested maps, coordinates ...).
/// `kind`: 0 = header parameter, 1 = key parameter, 2 = claim.
pub fn gen_registered_pair(rng: &mut Rng, kind: u8) -> (i128, MValue) {
    const HDR: &[i128] = &[
        8, 9, 10, 11, 12, 13, 14, 15, 16, 22, 23, 24, 25, 32, 33, 34, 35, 256, 257, 258, -65537,
        // ... and the algorithm-specific header parameters (ephemeral / static keys, salt,
        // PartyU / PartyV identity, nonce, other; sender certificates)
        -1, -2, -3, -20, -21, -22, -23, -24, -25, -26, -27, -28, -29,
    ];
    const KEY: &[i128] = &[
        -1, -2, -3, -4, -5, -6, -7, -8, -9, -10, -11, -12, 6, 7, -70000,
    ];
    const CLM: &[i128] = &[
        8, 9, 10, 38, 39, 40, 256, 257, 258, 259, 260, 261, 262, 263, 264, 265, 266, 273, 2394,
    ];
    let label = *rng.pick(match kind {
        0 => HDR,
        1 => KEY,
        _ => CLM,
    });
    let blob = |rng: &mut Rng| {
        let n = *rng.pick(&[0usize, 1, 8, 20, 32, 33, 48, 64, 65, 300, 1400]);
        MValue::Bytes(if rng.bool() {
            rng.bytes(n)
        } else {
            vec![0x30; n]
        })
    };
    let v = match rng.below(14) {
        0 => blob(rng),
        1 => MValue::Array(vec![blob(rng)]),
        2 => MValue::Array(vec![blob(rng), blob(rng)]),
        3 => MValue::Array(vec![blob(rng), blob(rng), blob(rng)]),
        4 => MValue::Array(vec![
            MValue::Int(*rng.pick(&[-16i128, -43, -44, -15, 1])),
            blob(rng),
        ]),
        5 => MValue::Array(vec![]),
        6 => MValue::Array(vec![MValue::Array(vec![blob(rng), blob(rng), blob(rng)])]),
        7 => MValue::Text(
            [
                "https://example.com/cert.pem",
                "application/cwt",
                "",
                "JWT",
                "coap://h/p",
            ][rng.below(5)]
            .to_string(),
        ),
        8 => MValue::Tag(
            32,
            Box::new(MValue::Text("https://example.com/chain".to_string())),
        ),
        9 => MValue::Int(*rng.pick(&[0i128, 1, 2, 16, 18, 61, 98, 255, 256, 65535, -1, -7])),
        10 => MValue::Map(vec![(MValue::Int(1), MValue::Text("issuer".to_string()))]),
        11 => MValue::Map(vec![(
            MValue::Int(1),
            MValue::Map(vec![
                (MValue::Int(1), MValue::Int(2)),
                (MValue::Int(-1), MValue::Int(1)),
                (MValue::Int(-2), blob(rng)),
            ]),
        )]),
        12 => MValue::Map(vec![(MValue::Int(3), blob(rng))]),
        _ => MValue::Bool(rng.bool()),
    };
    (label, v)
}

pub fn value_by_idx(i: usize) -> HResult<MValue> {
    value_palette().get(i).cloned().ok_or_else(|| {
        crate::trace::HarnessError(format!("value palette index {} out of range", i))
    })
}

/// A header argument is either a palette index (int) or the reference CBOR encoding of an
/// arbitrary header produced by the traffic generator.
pub fn header_from_arg(step: &Step, i: usize) -> HResult<MHeader> {
    match step.args.get(i) {
        Some(Arg::I(_)) => header_by_idx(step.usize(i)?),
        Some(Arg::B(b)) => {
            let it = crate::refcbor::read_exact(b).map_err(|e| {
                crate::trace::HarnessError(format!("header argument is not CBOR: {:?}", e))
            })?;
            MHeader::from_item(&it).ok_or_else(|| {
                crate::trace::HarnessError(
                    "header argument has a shape the harness does not model".into(),
                )
            })
        }
        other => herr(format!(
            "step {}: arg {} should be a header, got {:?}",
            step.name, i, other
        )),
    }
}

pub fn gen_header_arg(rng: &mut Rng) -> Arg {
    if rng.chance(1, 4) {
        let h = crate::traffic::gen_header(rng, &crate::traffic::GenCfg::small(), 0);
        let bytes = crate::refcbor::encode(&h.to_item());
        // only descriptors that survive the trip through the trace unchanged are used
        if let Ok(it) = crate::refcbor::read_exact(&bytes) {
            if MHeader::from_item(&it).as_ref() == Some(&h) {
                return Arg::B(bytes);
            }
        }
    }
    Arg::I(pick_header_idx(rng) as i128)
}

/// Signature descriptor as three args: protected header idx, unprotected header idx, signature bytes.
pub fn gen_sig_args(rng: &mut Rng) -> Vec<Arg> {
    vec![
        gen_template_protected_arg(rng),
        gen_header_arg(rng),
        Arg::B(bytes_palette()[pick_small_bytes_idx(rng)].clone()),
    ]
}

/// Protected header of a signature / recipient template.  A template is either built in memory
/// (no retained wire bytes) or was itself decoded from the wire: when the argument carries bytes
/// that are not the reference encoding of the header they parse to (the long-form empty map
/// `a0`, an indefinite-length map, wide heads), those bytes are the template's retained wire bytes.
pub fn protected_from_arg(step: &Step, i: usize) -> HResult<MProtected> {
    let h = header_from_arg(step, i)?;
    if let Some(Arg::B(b)) = step.args.get(i) {
        let reference = if h.is_empty() {
            Vec::new()
        } else {
            crate::refcbor::encode(&h.to_item())
        };
        if *b != reference {
            return Ok(MProtected {
                original: Some(b.clone()),
                header: h,
            });
        }
    }
    Ok(MProtected::built(h))
}

/// Header argument for the protected slot of a template: sometimes in a wire form a decoder
/// would have retained.
pub fn gen_template_protected_arg(rng: &mut Rng) -> Arg {
    if rng.chance(1, 6) {
        match rng.below(5) {
            0 => return Arg::B(vec![0xa0]),
            1 => return Arg::B(vec![0xbf, 0xff]),
            _ => {
                // a fresh header, or one of the palette's (the headers the other layers of the
                // same message are drawn from: two layers may well carry the SAME header in
                // different wire forms)
                let h = if rng.bool() {
                    header_palette()[pick_header_idx(rng)].clone()
                } else {
                    crate::traffic::gen_header(rng, &crate::traffic::GenCfg::small(), 1)
                };
                let mut it = h.to_item();
                if rng.chance(1, 3) {
                    // the sender's choice of entry order
                    if let crate::refcbor::Kind::Map(m) = &mut it.kind {
                        if m.len() >= 2 {
                            let n = m.len();
                            m.swap(0, n - 1);
                        }
                    }
                }
                let mut out = Vec::new();
                crate::refcbor::write_item(
                    &it,
                    &mut out,
                    &mut crate::refcbor::Seeded {
                        rng,
                        widen: 6,
                        indef: 6,
                    },
                );
                if let Ok(back) = crate::refcbor::read_exact(&out) {
                    if MHeader::from_item(&back).as_ref() == Some(&h) {
                        return Arg::B(out);
                    }
                }
            }
        }
    }
    gen_header_arg(rng)
}

pub fn sig_from_args(step: &Step, at: usize) -> HResult<MSignature> {
    Ok(MSignature {
        protected: protected_from_arg(step, at)?,
        unprotected: header_from_arg(step, at + 1)?,
        signature: step.bytes(at + 2)?.to_vec(),
    })
}

/// Recipient descriptor as four args: protected idx, unprotected idx, ciphertext (bytes|none),
/// nested (0 = none, 1 = one nested recipient with empty headers and ciphertext h'4e').
pub fn gen_recipient_args(rng: &mut Rng) -> Vec<Arg> {
    vec![
        gen_template_protected_arg(rng),
        gen_header_arg(rng),
        if rng.chance(1, 4) {
            Arg::S("none".into())
        } else {
            Arg::B(bytes_palette()[pick_small_bytes_idx(rng)].clone())
        },
        Arg::I(if rng.chance(1, 4) { 1 } else { 0 }),
    ]
}

pub fn recipient_from_args(step: &Step, at: usize) -> HResult<MRecipient> {
    let nested = step.int(at + 3)?;
    Ok(MRecipient {
        protected: protected_from_arg(step, at)?,
        unprotected: header_from_arg(step, at + 1)?,
        ciphertext: opt_bytes_from(step, at + 2)?,
        recipients: if nested == 1 {
            vec![MRecipient {
                ciphertext: Some(vec![0x4e]),
                ..Default::default()
            }]
        } else {
            vec![]
        },
    })
}

pub fn party_palette() -> Vec<MPartyInfo> {
    vec![
        MPartyInfo::default(),
        MPartyInfo {
            identity: Some(b"id".to_vec()),
            nonce: None,
            other: None,
        },
        MPartyInfo {
            identity: None,
            nonce: Some(MNonce::Bytes(vec![1, 2])),
            other: None,
        },
        MPartyInfo {
            identity: None,
            nonce: Some(MNonce::Integer(-5)),
            other: Some(vec![]),
        },
        MPartyInfo {
            identity: Some(vec![]),
            nonce: Some(MNonce::Integer(i64::MAX)),
            other: Some(b"o".to_vec()),
        },
    ]
}

pub fn supp_pub_palette() -> Vec<MSuppPubInfo> {
    let hs = header_palette();
    vec![
        MSuppPubInfo::default(),
        MSuppPubInfo {
            key_data_length: 128,
            protected: MProtected::built(hs[1].clone()),
            other: None,
        },
        MSuppPubInfo {
            key_data_length: u64::MAX,
            protected: MProtected::built(hs[0].clone()),
            other: Some(vec![]),
        },
        MSuppPubInfo {
            key_data_length: 256,
            protected: MProtected::built(hs[18].clone()),
            other: Some(b"other".to_vec()),
        },
    ]
}

pub fn ctx_name(i: usize) -> &'static str {
    [
        "Encrypt",
        "Encrypt0",
        "EncRecipient",
        "MacRecipient",
        "RecRecipient",
    ][i]
}

pub fn ctx_from_name(s: &str) -> HResult<coset::EncryptionContext> {
    Ok(match s {
        "Encrypt" => coset::EncryptionContext::CoseEncrypt,
        "Encrypt0" => coset::EncryptionContext::CoseEncrypt0,
        "EncRecipient" => coset::EncryptionContext::EncRecipient,
        "MacRecipient" => coset::EncryptionContext::MacRecipient,
        "RecRecipient" => coset::EncryptionContext::RecRecipient,
        _ => return herr(format!("unknown encryption context {}", s)),
    })
}

pub fn ctx_is_recipient(s: &str) -> bool {
    matches!(s, "EncRecipient" | "MacRecipient" | "RecRecipient")
}

/// A byte-exact ASN.1 DER `SEQUENCE { INTEGER r, INTEGER s }` (the form ECDSA signatures have
/// outside COSE) whose `r` starts with `marker`; `n` is the field size in bytes.
pub fn der_ecdsa_sig(marker: &[u8], n: usize) -> Vec<u8> {
    let mut r: Vec<u8> = marker.iter().map(|b| b & 0x7f).collect();
    if r.is_empty() || r[0] == 0 {
        r.insert(0, 0x54);
    }
    while r.len() < n {
        r.push((r.len() as u8).wrapping_mul(29) | 1);
    }
    r.truncate(n);
    let mut sv: Vec<u8> = (0..n).map(|i| (i as u8).wrapping_mul(53) | 1).collect();
    sv[0] = 0x01 | (sv[0] & 0x7f);
    let int = |v: &[u8]| -> Vec<u8> {
        let mut o = vec![0x02];
        let mut body = v.to_vec();
        if body[0] & 0x80 != 0 {
            body.insert(0, 0);
        }
        o.extend(der_len(body.len()));
        o.extend(body);
        o
    };
    let mut content = int(&r);
    content.extend(int(&sv));
    let mut out = vec![0x30];
    out.extend(der_len(content.len()));
    out.extend(content);
    out
}

fn der_len(n: usize) -> Vec<u8> {
    if n < 128 {
        vec![n as u8]
    } else if n < 256 {
        vec![0x81, n as u8]
    } else {
        vec![0x82, (n >> 8) as u8, n as u8]
    }
}

/// What a caller's verification / decryption function typically does while it runs: use the
/// library again - unwrap a key through a recipient, check a MAC over a key certificate, verify
/// an inner signature, build and sign a response.  One round of the four helper families on small fixed messages, from
/// INSIDE the callback of the helper under test (layered COSE use; the helpers must be
/// re-entrant on one thread).
pub fn layered_use() {
    use coset::{CoseEncrypt0, CoseMac0, CoseRecipient, CoseSign1};
    let s1 = CoseSign1 {
        payload: Some(b"inner".to_vec()),
        signature: vec![1, 2, 3],
        ..Default::default()
    };
    let _ = s1.verify_signature(b"x", |_s, _d| Ok::<(), ()>(()));
    let m0 = CoseMac0 {
        payload: Some(b"inner".to_vec()),
        tag: vec![4, 5],
        ..Default::default()
    };
    let _ = m0.verify_tag(b"", |_t, _d| Ok::<(), ()>(()));
    let e0 = CoseEncrypt0 {
        ciphertext: Some(vec![6, 7, 8]),
        ..Default::default()
    };
    let _ = e0.decrypt(b"y", |c, _a| Ok::<Vec<u8>, ()>(c.to_vec()));
    let r = CoseRecipient {
        ciphertext: Some(vec![9]),
        ..Default::default()
    };
    let _ = r.decrypt(coset::EncryptionContext::EncRecipient, b"", |c, _a| {
        Ok::<Vec<u8>, ()>(c.to_vec())
    });
    // ... and the creating side
    let _ = coset::CoseSign1Builder::new()
        .payload(b"reply".to_vec())
        .create_signature(b"", |d| d[..d.len().min(4)].to_vec())
        .build();
    let _ = coset::CoseMac0Builder::new()
        .payload(b"reply".to_vec())
        .create_tag(b"", |d| d[..d.len().min(4)].to_vec())
        .build();
    let _ = coset::CoseEncrypt0Builder::new()
        .create_ciphertext(b"pt", b"", |p, _a| p.to_vec())
        .build();
}
