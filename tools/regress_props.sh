#!/bin/sh
# usage: tools/regress_props.sh C13 C14 ...  - re-run the stored seeds of the named properties only
for d in /verif/seeded/*/; do
    n=$(basename "$d")
    prop=$(python3 -c "import json,sys; print(json.load(open('$d/meta.json'))['property'])")
    case " $* " in *" $prop "*) ;; *) continue ;; esac
    out=$(timeout 900 python3 /verif/tools/seed_eval.py "$n" "$prop" 2>&1 | grep -aE "check $prop")
    git -C /repo checkout -- . 2>/dev/null
    echo "seed $n $out"
done
rm -f /verif/replays/*.replay
