//! C14 - tagged forms carry exactly the structure's registered CBOR tag.
//! For every simulated taggable message the wire misdelivers the tagged bytes to all six tagged
//! and all six untagged decoders and rewrites the tag head to every number of a palette at every
//! head width (plus no tag and two tags); acceptance must be exactly "own registered tag, once,
//! over a body the untagged decoder accepts", with the same value.

use crate::common::guarded;
use crate::endpoints::*;
use crate::engine::*;
use crate::refcbor;
use crate::rng::Rng;
use crate::trace::*;
use crate::traffic::*;
use crate::util::{hash_bytes, hex_short, Hasher64};
use coset::CborSerializable;

pub struct C14;

fn tag_numbers(own: u64) -> Vec<u64> {
    let mut v: Vec<u64> = REG_TAGS.iter().map(|(_, n)| *n).collect();
    for (_, n) in REG_TAGS {
        v.push(n - 1);
        v.push(n + 1);
    }
    for bit in 0..16 {
        v.push(own ^ (1u64 << bit));
    }
    for bit in 16..64 {
        v.push(own ^ (1u64 << bit));
    }
    // every small tag number, the other IANA tags a decoder might "look through", and numbers
    // derived from the own tag by arithmetic (truncation / shifting mistakes)
    v.extend(0..=127u64);
    v.extend([
        24u64,
        63,
        256 + own,
        (own << 8) | own,
        own << 16,
        (own << 16) | own,
        own << 32,
        (own << 32) | own,
        own + (1 << 16) * 3,
        own * 257,
        own + (1 << 8),
        0x1_0000_0000 - 1 + own,
    ]);
    v.extend([
        0,
        1,
        2,
        3,
        4,
        5,
        24,
        55,
        61,
        255,
        256,
        55799,
        65535,
        65536,
        1 << 32,
        u64::MAX,
        own + 256,
        own + 65536,
        own << 8,
    ]);
    // other registries' numbers for the same structures and the generic tags a lenient decoder
    // might see through: RFC 9277 content-format tags (1668546817 + content format, the COSE
    // content formats being 16, 17, 18, 96, 97, 98 and 101, 102 for keys), and registered tags
    // beyond 127
    for cf in [16u64, 17, 18, 96, 97, 98, 101, 102, 61, 60] {
        v.push(1_668_546_817 + cf);
    }
    v.extend([
        1_668_546_817u64,
        1_668_546_817 + own,
        256,
        257,
        258,
        259,
        260,
        261,
        262,
        263,
        264,
        265,
        266,
        267,
        268,
        272,
        273,
        601,
        1001,
        1002,
        1003,
        1004,
        1040,
        55800,
        55801,
        15_309_736,
        65_534,
        4_294_967_295,
    ]);
    v.sort();
    v.dedup();
    v
}

struct Delivery {
    prefix: Vec<u8>,
    tags: Vec<u64>,
    kind: &'static str,
}

impl Delivery {
    /// The untagged decoders reject every tagged item for one and the same reason (a tag is not an
    /// array), so they are exercised on a representative subset of the prefixes: every registered
    /// tag in every width, a handful of other numbers, registered double tags and all malformed
    /// heads.  The tagged decoders see every prefix.
    fn for_untagged(&self) -> bool {
        let reg = |n: &u64| REG_TAGS.iter().any(|(_, r)| r == n);
        match self.kind {
            "tag-rewrite" => matches!(
                self.tags[0],
                0 | 1 | 2 | 3 | 24 | 61 | 63 | 55799 | u64::MAX
            ),
            "double-tag" => self.tags.iter().all(reg),
            _ => true,
        }
    }
}

fn deliveries(own: u64, extra: &[u64]) -> Vec<Delivery> {
    let mut out = Vec::new();
    out.push(Delivery {
        prefix: vec![],
        tags: vec![],
        kind: "untagged",
    });
    let mut numbers = tag_numbers(own);
    numbers.extend_from_slice(extra);
    numbers.sort();
    numbers.dedup();
    for n in numbers {
        // every head width for the registered numbers and their neighbours; for the rest the
        // minimal width plus one wider width (which one rotates with the number)
        let near_registered = REG_TAGS
            .iter()
            .any(|(_, r)| n.saturating_add(1) >= *r && n <= *r + 1);
        let rot = [1u8, 2, 4, 8][(n % 4) as usize];
        for w in [0u8, 1, 2, 4, 8] {
            if !near_registered
                && refcbor::head_width(6, n, w)
                    .map(|h| h != refcbor::head(6, n))
                    .unwrap_or(false)
                && w != rot
                && w != 8
            {
                continue;
            }
            if let Some(h) = refcbor::head_width(6, n, w) {
                let minimal = refcbor::head(6, n) == h;
                let kind = if n == own {
                    if minimal {
                        "own-tag"
                    } else {
                        "own-tag(wide head)"
                    }
                } else if REG_TAGS.iter().any(|(_, r)| *r == n) {
                    "misdeliver(other registered tag)"
                } else {
                    "tag-rewrite"
                };
                out.push(Delivery {
                    prefix: h,
                    tags: vec![n],
                    kind,
                });
            }
        }
    }
    // double tagging: every number of the palette over the own tag, and the own tag over every
    // number of the palette (minimal heads), so that no outer or inner "convenience" tag is
    // looked through
    for n in tag_numbers(own) {
        let mut p = refcbor::head(6, n);
        p.extend(refcbor::head(6, own));
        out.push(Delivery {
            prefix: p,
            tags: vec![n, own],
            kind: "double-tag",
        });
        let mut p = refcbor::head(6, own);
        p.extend(refcbor::head(6, n));
        out.push(Delivery {
            prefix: p,
            tags: vec![own, n],
            kind: "double-tag",
        });
    }
    // malformed tag heads (corruption in the head's additional-information bits): the reserved
    // values 28..30 followed by 0..64 argument bytes whose low-order bytes spell the own tag, the
    // "indefinite" head 0xdf, and valid-width heads cut short are not the tag applied once
    for ai in [28u8, 29, 30, 31] {
        for n in [0usize, 1, 2, 4, 8, 16, 32, 64] {
            let mut p = vec![0xc0 | ai];
            let mut arg = vec![0u8; n];
            let be = own.to_be_bytes();
            for i in 0..n.min(8) {
                arg[n - 1 - i] = be[7 - i];
            }
            p.extend(arg);
            out.push(Delivery {
                prefix: p,
                tags: vec![],
                kind: "malformed-head",
            });
            if n >= 16 {
                // own tag in the high-order half instead
                let mut p = vec![0xc0 | ai];
                let mut arg = vec![0u8; n];
                for i in 0..8 {
                    arg[7 - i] = be[7 - i];
                }
                p.extend(arg);
                out.push(Delivery {
                    prefix: p,
                    tags: vec![],
                    kind: "malformed-head",
                });
            }
        }
    }
    // a tag head of every other major type's initial byte with the own tag as argument
    for major in [0u8, 1, 2, 3, 4, 5, 7] {
        if let Some(h) = refcbor::head_width(major, own, 1) {
            out.push(Delivery {
                prefix: h,
                tags: vec![],
                kind: "malformed-head",
            });
        }
    }
    // triple: own tag thrice
    let mut p = refcbor::head(6, own);
    p.extend(refcbor::head(6, own));
    p.extend(refcbor::head(6, own));
    out.push(Delivery {
        prefix: p,
        tags: vec![own, own, own],
        kind: "double-tag",
    });
    out
}

fn six(form: Form) -> Vec<&'static Endpoint> {
    REG_TAGS
        .iter()
        .filter_map(|(ty, _)| {
            if form == Form::Tagged {
                tagged_of(ty)
            } else {
                untagged_of(ty)
            }
        })
        .collect()
}

impl Engine for C14 {
    fn id(&self) -> &'static str {
        "C14"
    }
    fn info(&self) -> EngineInfo {
        EngineInfo {
            level: "fault_enumeration",
            rule: "Each run is one simulated message body of a taggable type (valid, of another taggable type's shape, with an element dropped/added, or with one corrupted byte after the array head). The body is delivered with every tag prefix of the palette - none, each of ~230 tag numbers (0..=127, the six registered ones and neighbours, all 64 one-bit flips of the own tag, numbers derived from it by shifting / adding / truncation patterns, 55799, 2^32, 2^64-1, plus 16 seeded numbers of every magnitude per run) at its minimal head width, the 8-byte width and one further width (every width for the registered numbers and their neighbours), and ~140 double tags (every palette number over and under the own tag) - to ALL six tagged decoders and (a representative subset: registered tags in every width, well-known other tags, registered double tags, malformed heads) to ALL six untagged decoders. evaluations = deliveries. Oracle per delivery: tagged decoder B accepts iff exactly one tag, equal to B's registered number (independent table), over a body B's untagged decoder accepts (and the bytes are CBOR for coset's own Value decoder), with the same value; untagged decoders reject every tagged delivery; plus the wire monitor to_tagged_vec == head(6, REG) || to_vec. Non-trivial = body of at least 2 bytes; distinct = distinct body byte strings (64-bit hash).",
            distinct_classes: &["(endpoint, delivery kind, outcome) triples", "(body type, body kind) pairs"],
            assumptions: &[
                "exhaustive over the tag palette x head widths x 12 endpoints per message; sampled over message bodies",
                "'an input the untagged decoder accepts' is decided by coset's own untagged decoder on the body bytes (the property is relative to it)",
                "registered tag numbers come from a table in the harness, not from coset::iana",
            ],
            real_components: &["from_tagged_slice / from_slice / to_tagged_vec / to_vec of the six taggable coset types; ciborium underneath"],
            stub_components: &["originators (harness generators + harness CBOR writer)", "wire (tag-head rewriting, misdelivery)"],
            fault_kinds: &["misdeliver(all 12 endpoints)", "tag-rewrite(number x width)", "own-tag(wide head)", "double-tag", "malformed-head (reserved additional info, wrong major type)", "tag-over-bstr-wrapped-body", "untagged", "size-ladder bodies (2^k - d bytes, k = 8..24 quick / 8..26 thorough)"],
            design_ref: "DESIGN.md section 5.4",
        }
    }
    fn runs(&self, tier: Tier) -> u64 {
        match tier {
            Tier::Quick => 4_500,
            Tier::Thorough => 200_000,
        }
    }
    fn batch(&self) -> u64 {
        32
    }
    fn gen(&self, seed: u64, run: u64, _tier: Tier) -> Trace {
        let mut rng = Rng::for_run(seed, run, "C14");
        let mut t = Trace::new("C14", seed, run);
        let ty = TAGGABLE[rng.below(TAGGABLE.len())];
        // size ladder: about 230 run indices spread over the whole range carry a minimal valid body
        // whose encoded length is 2^k - d for k = 8..24 (quick) / 8..26 (thorough) and small d (size limits, length-head
        // boundaries and anything that counts the tag head into a byte budget live there)
        let stride = (self.runs(_tier) / 232).max(1);
        if run % stride == stride / 2 {
            let j = (run / stride) as usize;
            // k = 8..24 in the quick tier, 8..26 in the thorough tier
            let nk = if _tier == Tier::Quick { 17 } else { 19 };
            let k = 8 + (j % nk);
            let d = [0usize, 1, 2, 3, 4, 5, 6, 7, 8, 9, 10, 16][(j / nk) % 12];
            let total = (1usize << k) - d;
            let (pre, post): (Vec<u8>, Vec<u8>) = match ty {
                "CoseSign1" | "CoseMac0" => (vec![0x84, 0x40, 0xa0], vec![0x40]),
                "CoseSign" | "CoseEncrypt" => (vec![0x84, 0x40, 0xa0], vec![0x80]),
                "CoseMac" => (vec![0x85, 0x40, 0xa0], vec![0x40, 0x80]),
                _ => (vec![0x83, 0x40, 0xa0], vec![]),
            };
            let fixed = pre.len() + post.len();
            // largest L with fixed + head(L) + L <= total
            let mut l = total.saturating_sub(fixed + 9);
            while fixed + refcbor::head(2, (l + 1) as u64).len() + l + 1 <= total {
                l += 1;
            }
            let mut body = pre;
            body.extend(refcbor::head(2, l as u64));
            body.resize(body.len() + l, 0x55);
            body.extend(post);
            t.set_meta("type", ty);
            t.set_meta("body", "size-ladder");
            t.set_meta("size", format!("2^{}-{}", k, d));
            t.push(Step::new("msg", "body", vec![Arg::B(body)]));
            return t;
        }
        let cfg = if rng.chance(1, 8) {
            GenCfg::medium()
        } else {
            GenCfg::small()
        };
        let kind = rng.weighted(&[10, 3, 2, 2, 3, 3, 2, 3]);
        let (body, kname) = match kind {
            0 => (gen_wire(&mut rng, ty, false, &cfg), "valid"),
            1 => {
                // body of another structure (some share their shape with `ty`)
                let other = [
                    "CoseSign",
                    "CoseSign1",
                    "CoseMac",
                    "CoseMac0",
                    "CoseEncrypt",
                    "CoseEncrypt0",
                    "CoseRecipient",
                    "CoseSignature",
                ];
                let o = other[rng.below(other.len())];
                (gen_wire(&mut rng, o, false, &cfg), "other-structure")
            }
            2 => {
                let it = gen_item(&mut rng, ty, &cfg);
                let mut a = it.as_array().cloned().unwrap_or_default();
                a.pop();
                (refcbor::encode(&refcbor::Item::array(a)), "element-dropped")
            }
            3 => {
                let it = gen_item(&mut rng, ty, &cfg);
                let mut a = it.as_array().cloned().unwrap_or_default();
                a.push(refcbor::Item::bytes(b"x"));
                (refcbor::encode(&refcbor::Item::array(a)), "element-added")
            }
            7 => {
                // valid body whose headers carry "type hints" that name ANOTHER COSE structure: the
                // CoAP content formats / tag numbers 16, 17, 18, 96, 97, 98 and the registered media
                // types, as content type and under the typ-like extension labels
                let it = gen_item(&mut rng, ty, &cfg);
                let mut a = it.as_array().cloned().unwrap_or_default();
                let f = *rng.pick(&[16i128, 17, 18, 96, 97, 98, 61, 101]);
                let mut m: Vec<(refcbor::Item, refcbor::Item)> = Vec::new();
                if rng.bool() {
                    m.push((refcbor::Item::uint(3), refcbor::Item::int(f)));
                }
                for l in [16u64, 10, 32, 256] {
                    if rng.chance(1, 2) {
                        let v = if rng.chance(1, 4) {
                            refcbor::Item::text(
                                [
                                    "application/cose; cose-type=\"cose-sign1\"",
                                    "application/cose; cose-type=\"cose-mac0\"",
                                    "application/cose-key",
                                ][rng.below(3)],
                            )
                        } else {
                            refcbor::Item::int(f)
                        };
                        m.push((refcbor::Item::uint(l), v));
                    }
                }
                let hdr = refcbor::Item::map(m);
                if a.len() >= 2 {
                    if rng.bool() {
                        a[1] = hdr;
                    } else {
                        a[0] = refcbor::Item::bytes(&refcbor::encode(&hdr));
                    }
                }
                (refcbor::encode(&refcbor::Item::array(a)), "type-hints")
            }
            6 => {
                // valid body whose unprotected header carries a value nested right at the CBOR
                // parser's depth limit (the tag itself costs the parser one more level)
                let it = gen_item(&mut rng, ty, &cfg);
                let mut a = it.as_array().cloned().unwrap_or_default();
                let d = rng.range(244, 258);
                let nest_kind = rng.below(3);
                let mut v = refcbor::Item::uint(0);
                for _ in 0..d {
                    v = match nest_kind {
                        0 => refcbor::Item::array(vec![v]),
                        1 => refcbor::Item::map(vec![(refcbor::Item::uint(0), v)]),
                        _ => refcbor::Item::tag(1, v),
                    };
                }
                if a.len() >= 2 {
                    a[1] = refcbor::Item::map(vec![(refcbor::Item::uint(99), v)]);
                }
                (refcbor::encode(&refcbor::Item::array(a)), "nested-at-limit")
            }
            5 => {
                // valid body in a non-canonical encoding (wide heads, indefinite lengths)
                let mut it = gen_item(&mut rng, ty, &cfg);
                if rng.chance(1, 3) {
                    refcbor::bignumify(&mut rng, &mut it, 0);
                }
                if rng.chance(1, 4) {
                    refcbor::undefine(&mut rng, &mut it, 0);
                }
                let mut out = Vec::new();
                let widen = rng.range(0, 6) as u32;
                let indef = rng.range(1, 8) as u32;
                refcbor::write_item(
                    &it,
                    &mut out,
                    &mut refcbor::Seeded {
                        rng: &mut rng,
                        widen,
                        indef,
                    },
                );
                (out, "non-canonical")
            }
            _ => {
                let mut b = gen_wire(&mut rng, ty, false, &cfg);
                if b.len() > 1 {
                    let i = 1 + rng.below(b.len() - 1);
                    b[i] ^= 1 << rng.below(8);
                }
                (b, "corrupted")
            }
        };
        t.set_meta("type", ty);
        t.set_meta("body", kname);
        t.push(Step::new("msg", "body", vec![Arg::B(body)]));
        // 16 seeded tag numbers of every magnitude on top of the fixed palette
        let extra: Vec<Arg> = (0..16)
            .map(|_| Arg::I((rng.next_u64() >> rng.below(64)) as i128))
            .collect();
        t.push(Step::new("tags", "extra", extra));
        t
    }
    fn step_is_fixed(&self, _t: &Trace, _idx: usize) -> bool {
        true
    }
    fn exec(&self, t: &Trace, st: &mut RunStats) -> HResult<Option<Violation>> {
        let ty = t.meta_req("type")?.to_string();
        let bk = t.meta("body").unwrap_or("?").to_string();
        let own = reg_tag(&ty).ok_or_else(|| HarnessError(format!("{} is not taggable", ty)))?;
        let u = t
            .steps
            .iter()
            .find(|s| s.kind == "msg")
            .ok_or_else(|| HarnessError("no body".into()))?
            .bytes(0)?
            .to_vec();
        st.inc(&format!("bodies:{}:{}", ty, bk));
        if u.len() >= 2 {
            st.distinct(0, hash_bytes(&u));
        }
        {
            let mut h = Hasher64::new();
            h.str(&ty).str(&bk);
            st.distinct(2, h.finish());
        }
        // bodies beyond 64 KiB (size ladder) go to the own type's two decoders only, with the
        // own-tag / untagged / registered-tag prefixes, and without hand-modified variants
        let big = u.len() > (1 << 16);
        let tagged_eps: Vec<&'static Endpoint> = six(Form::Tagged);
        let untagged_eps: Vec<&'static Endpoint> = six(Form::Untagged);

        // baseline: what each untagged decoder makes of the body
        let mut base: Vec<Option<Decoded>> = Vec::new();
        for ep in &untagged_eps {
            if big && ep.ty != ty {
                base.push(None);
                continue;
            }
            st.inc("evaluations");
            match guarded(|| (ep.decode)(&u)) {
                Ok(Ok(d)) => base.push(Some(d)),
                Ok(Err(_)) => base.push(None),
                Err(p) => {
                    return Ok(Some(Violation::new(
                        "C14.panic",
                        format!("{} panicked on {}: {}", ep.name, hex_short(&u), p),
                    )))
                }
            }
        }
        let own_idx = REG_TAGS.iter().position(|(x, _)| *x == ty).unwrap();
        if base[own_idx].is_some() {
            st.inc("probe:body-accepted-by-own-type");
        } else {
            st.inc("probe:body-rejected-by-own-type");
        }
        if base
            .iter()
            .enumerate()
            .any(|(i, b)| i != own_idx && b.is_some())
        {
            st.inc("probe:body-accepted-by-another-type");
        }

        // wire monitor on every accepted value: tagged encoding = registered tag head || untagged encoding
        let mut monitor_subjects: Vec<(usize, Decoded)> = Vec::new();
        for (i, b) in base.iter().enumerate() {
            if let Some(d) = b {
                monitor_subjects.push((i, d.clone()));
                // hand-modified copies: states decoding never produces but the public fields allow
                if !big {
                    for (_what, v) in d.variants() {
                        monitor_subjects.push((i, v));
                    }
                }
            }
        }
        // values assembled in memory (never decoded): a seeded one and the default of each type
        if !big {
            let mut vr = Rng::for_run(t.seed, t.run, "C14-built");
            for (i, (bty, _)) in REG_TAGS.iter().enumerate() {
                let mut built: Vec<Decoded> = Vec::new();
                if let Some(d) = gen_built(&mut vr, bty, &GenCfg::small()) {
                    built.push(d);
                }
                if let Some(d) = default_built(bty) {
                    built.push(d);
                }
                for d in built {
                    for (_w, v) in d.variants() {
                        monitor_subjects.push((i, v));
                    }
                    monitor_subjects.push((i, d));
                }
            }
        }
        for (i, d) in &monitor_subjects {
            let i = *i;
            {
                let (bty, reg) = REG_TAGS[i];
                let uv = guarded(|| d.to_vec());
                let tv = guarded(|| d.to_tagged_vec());
                st.inc("evaluations");
                match (uv, tv) {
                    (Ok(Ok(uv)), Ok(Some(Ok(tv)))) => {
                        let mut want = refcbor::head(6, reg);
                        want.extend_from_slice(&uv);
                        if tv != want {
                            return Ok(Some(Violation::new(
                                "C14.tag-form",
                                format!(
                                    "{}: to_tagged_vec = {} but tag {} applied once to to_vec = {}",
                                    bty,
                                    hex_short(&tv),
                                    reg,
                                    hex_short(&want)
                                ),
                            )));
                        }
                    }
                    (Ok(Err(_)), Ok(Some(Err(_)))) => {}
                    (uv, tv) => {
                        return Ok(Some(Violation::new(
                            "C14.tag-form",
                            format!(
                            "{}: a decoded value failed to encode: to_vec {:?}, to_tagged_vec {:?}",
                            bty,
                            uv.map(|r| r.is_ok()),
                            tv.map(|r| r.map(|x| x.is_ok()))
                        ),
                        )))
                    }
                }
            }
        }

        // narrowed replay: only the recorded deliveries
        let only: Vec<(String, Vec<u8>, Vec<u64>)> = {
            let mut v = Vec::new();
            for s in t.steps.iter().filter(|s| s.kind == "fault") {
                let mut tags = Vec::new();
                for i in 2..s.args.len() {
                    tags.push(s.u64(i)?);
                }
                v.push((s.sym(0)?.to_string(), s.bytes(1)?.to_vec(), tags));
            }
            v
        };
        let extra: Vec<u64> = match t.steps.iter().find(|s| s.kind == "tags") {
            Some(st) => (0..st.args.len())
                .map(|i| st.u64(i))
                .collect::<HResult<Vec<u64>>>()?,
            None => vec![],
        };
        let mut all = deliveries(own, &extra);
        // the body wrapped in a byte string under a tag ("encoded CBOR data item" 24 and others):
        // still a tagged item, accepted by nobody
        if !big {
            for tg in [24u64, 63, 55799, own, 0] {
                let mut p = refcbor::head(6, tg);
                p.extend(refcbor::head(2, u.len() as u64));
                all.push(Delivery {
                    prefix: p,
                    tags: vec![],
                    kind: "tag-over-bstr-wrapped-body",
                });
            }
            // and the bare byte-string wrapping without any tag
            all.push(Delivery {
                prefix: refcbor::head(2, u.len() as u64),
                tags: vec![],
                kind: "tag-over-bstr-wrapped-body",
            });
        }
        let narrowed = |ep: &Endpoint, d: &Delivery| -> Trace {
            let mut n = t.clone();
            n.steps.retain(|s| s.kind != "fault");
            let mut args = vec![Arg::S(ep.name.to_string()), Arg::B(d.prefix.clone())];
            for x in &d.tags {
                args.push(Arg::I(*x as i128));
            }
            n.steps.push(Step::new("fault", "deliver", args));
            n
        };

        for d in &all {
            if big
                && !matches!(
                    d.kind,
                    "own-tag"
                        | "own-tag(wide head)"
                        | "misdeliver(other registered tag)"
                        | "untagged"
                )
            {
                continue;
            }
            let mut bytes = d.prefix.clone();
            bytes.extend_from_slice(&u);
            let value_ok = matches!(
                guarded(|| coset::cbor::value::Value::from_slice(&bytes)),
                Ok(Ok(_))
            );
            for (form, eps) in [(Form::Tagged, &tagged_eps), (Form::Untagged, &untagged_eps)] {
                for (i, ep) in eps.iter().enumerate() {
                    if big && ep.ty != ty {
                        continue;
                    }
                    if form == Form::Untagged && (d.prefix.is_empty() || !d.for_untagged()) {
                        continue; // the baseline / not in the untagged subset
                    }
                    if !only.is_empty()
                        && !only
                            .iter()
                            .any(|(e, p, tg)| e == ep.name && *p == d.prefix && *tg == d.tags)
                    {
                        continue;
                    }
                    st.inc("evaluations");
                    st.inc(&format!("fault:{}", d.kind));
                    let r = match guarded(|| (ep.decode)(&bytes)) {
                        Ok(r) => r,
                        Err(p) => {
                            return Ok(Some(
                                Violation::new(
                                    "C14.panic",
                                    format!("{} panicked on {}: {}", ep.name, hex_short(&bytes), p),
                                )
                                .narrowed(narrowed(ep, d)),
                            ))
                        }
                    };
                    {
                        let mut h = Hasher64::new();
                        h.str(ep.name).str(d.kind).u64(r.is_ok() as u64);
                        st.distinct(1, h.finish());
                    }
                    let reg_b = REG_TAGS[i].1;
                    // exactly the property's iff: own registered tag, once, over a body the untagged
                    // decoder accepts.  (An earlier version additionally required that coset's own
                    // Value decoder accepts the tagged bytes; that hid the fact that the tag costs the
                    // CBOR parser one nesting level - see DESIGN.md 10.8.)
                    let must_accept = form == Form::Tagged
                        && d.tags.len() == 1
                        && d.tags[0] == reg_b
                        && base[i].is_some();
                    if must_accept && !value_ok {
                        st.inc("probe:own-tag-over-accepted-body-but-not-a-Value");
                    }
                    match (&r, must_accept) {
                        (Ok(got), true) => {
                            if !base[i].as_ref().map(|b| b.same(got)).unwrap_or(false) {
                                return Ok(Some(
                                    Violation::new(
                                        "C14.value-differs",
                                        format!("{} decoded tag {} || body to a different value than {} gives for the body {}", ep.name, reg_b, untagged_eps[i].name, hex_short(&u)),
                                    )
                                    .narrowed(narrowed(ep, d)),
                                ));
                            }
                            st.inc("probe:own-tag-accepted");
                        }
                        (Err(e), true) => {
                            // rejection because the tag pushed the item over the CBOR parser's
                            // nesting limit is a class of its own (known finding, DESIGN.md 10.8)
                            let inv = if err_class(e) == "DecodeFailed(RecursionLimitExceeded)" {
                                "C14.own-tag-rejected(recursion-limit)"
                            } else {
                                "C14.own-tag-rejected"
                            };
                            return Ok(Some(
                                Violation::new(
                                    inv,
                                    format!("{} rejected ({}) its registered tag {} (head {}) over a body that {} accepts: {}", ep.name, err_class(e), reg_b, hex_short(&d.prefix), untagged_eps[i].name, hex_short(&u)),
                                )
                                .narrowed(narrowed(ep, d)),
                            ));
                        }
                        (Ok(_), false) => {
                            let why = if form == Form::Untagged {
                                "an untagged decoder accepted a tagged item"
                            } else if d.tags.is_empty() && !d.prefix.is_empty() {
                                "a tagged decoder accepted a malformed tag head"
                            } else if d.tags.is_empty() {
                                "a tagged decoder accepted an untagged item"
                            } else if d.tags.len() > 1 {
                                "a tagged decoder accepted a doubly tagged item"
                            } else if d.tags[0] != reg_b {
                                "a tagged decoder accepted a foreign tag number"
                            } else {
                                "a tagged decoder accepted a body its untagged decoder rejects"
                            };
                            return Ok(Some(
                                Violation::new(
                                    "C14.cross-accept",
                                    format!(
                                        "{}: {} (sender type {}, tags {:?}, prefix {}, body {})",
                                        ep.name,
                                        why,
                                        ty,
                                        d.tags,
                                        hex_short(&d.prefix),
                                        hex_short(&u)
                                    ),
                                )
                                .narrowed(narrowed(ep, d)),
                            ));
                        }
                        (Err(_), false) => {}
                    }
                }
            }
        }
        Ok(None)
    }
    fn finding_key(&self, t: &Trace, invariant: &str) -> String {
        let f = t.steps.iter().find(|s| s.kind == "fault");
        if invariant == "C14.own-tag-rejected(recursion-limit)" {
            // keyed by the kind of body only: the same for all six types
            return format!("{}:{}", invariant, t.meta("body").unwrap_or("?"));
        }
        format!(
            "{}:{}:{}",
            invariant,
            t.meta("type").unwrap_or("?"),
            f.and_then(|s| s.sym(0).ok()).unwrap_or("-")
        )
    }
}
