#!/bin/sh
# Re-run every stored seeded change and every mutant against the quick tier of its check.
# Prints one line per item; exit 1 if any property-breaking item is missed or a "silent" one is flagged.
bad=0
for d in /verif/seeded/*/; do
    n=$(basename "$d")
    prop=$(python3 -c "import json,sys; print(json.load(open('$d/meta.json'))['property'])")
    out=$(python3 /verif/tools/seed_eval.py "$n" "$prop" 2>&1 | grep -E "check $prop")
    echo "seed $n $out"
    case "$out" in *CAUGHT*) ;; *) bad=1 ;; esac
done
for p in /verif/mutants/*.patch; do
    b=$(basename "$p" .patch)
    case "$b" in
        silent-*) prop=C01; want=MISSED ;;
        *) prop=$(echo "$b" | cut -c1-3 | tr a-z A-Z); want=CAUGHT ;;
    esac
    out=$(/verif/tools/sensitivity.sh "$p" "$prop" quick 2>&1 | tail -1)
    echo "mutant $out"
    case "$out" in *$want*) ;; *) bad=1 ;; esac
done
rm -f /verif/replays/*.replay
exit $bad
