//! The only source of randomness in the harness: splitmix64 -> xoshiro256**.
//! One integer (VERIF_SEED) decides everything; per-run streams are derived from
//! (seed, run index, property tag).

#[derive(Clone, Debug)]
pub struct Rng {
    s: [u64; 4],
}

pub fn splitmix64(x: &mut u64) -> u64 {
    *x = x.wrapping_add(0x9E37_79B9_7F4A_7C15);
    let mut z = *x;
    z = (z ^ (z >> 30)).wrapping_mul(0xBF58_476D_1CE4_E5B9);
    z = (z ^ (z >> 27)).wrapping_mul(0x94D0_49BB_1331_11EB);
    z ^ (z >> 31)
}

pub fn tag(s: &str) -> u64 {
    // FNV-1a 64
    let mut h: u64 = 0xcbf2_9ce4_8422_2325;
    for b in s.bytes() {
        h ^= b as u64;
        h = h.wrapping_mul(0x0000_0100_0000_01B3);
    }
    h
}

impl Rng {
    pub fn from_u64(seed: u64) -> Self {
        let mut x = seed;
        let s = [
            splitmix64(&mut x),
            splitmix64(&mut x),
            splitmix64(&mut x),
            splitmix64(&mut x),
        ];
        Rng { s }
    }

    /// Stream for one run of one property.
    pub fn for_run(seed: u64, run: u64, prop: &str) -> Self {
        let mut x = seed ^ run.wrapping_mul(0x9E37_79B9_7F4A_7C15) ^ tag(prop);
        let mixed = splitmix64(&mut x);
        Self::from_u64(mixed)
    }

    pub fn next_u64(&mut self) -> u64 {
        let result = self.s[1].wrapping_mul(5).rotate_left(7).wrapping_mul(9);
        let t = self.s[1] << 17;
        self.s[2] ^= self.s[0];
        self.s[3] ^= self.s[1];
        self.s[1] ^= self.s[2];
        self.s[0] ^= self.s[3];
        self.s[2] ^= t;
        self.s[3] = self.s[3].rotate_left(45);
        result
    }

    /// Uniform in 0..n (n > 0).
    pub fn below(&mut self, n: usize) -> usize {
        debug_assert!(n > 0);
        // multiply-shift; bias is negligible for the n used here
        (((self.next_u64() >> 32) * (n as u64)) >> 32) as usize
    }

    pub fn below_u64(&mut self, n: u64) -> u64 {
        debug_assert!(n > 0);
        if n <= u32::MAX as u64 {
            self.below(n as usize) as u64
        } else {
            self.next_u64() % n
        }
    }

    /// Inclusive range.
    pub fn range(&mut self, lo: usize, hi: usize) -> usize {
        lo + self.below(hi - lo + 1)
    }

    pub fn chance(&mut self, num: u32, den: u32) -> bool {
        (self.below(den as usize) as u32) < num
    }

    pub fn bool(&mut self) -> bool {
        self.next_u64() & 1 == 1
    }

    pub fn pick<'a, T>(&mut self, xs: &'a [T]) -> &'a T {
        &xs[self.below(xs.len())]
    }

    /// Pick an index by integer weights.
    pub fn weighted(&mut self, weights: &[u32]) -> usize {
        let total: u32 = weights.iter().sum();
        let mut x = self.below(total as usize) as u32;
        for (i, w) in weights.iter().enumerate() {
            if x < *w {
                return i;
            }
            x -= *w;
        }
        weights.len() - 1
    }

    /// Log-uniform integer in [lo, hi] (lo >= 1).
    pub fn log_uniform(&mut self, lo: u64, hi: u64) -> u64 {
        debug_assert!(lo >= 1 && hi >= lo);
        let lo_bits = 64 - lo.leading_zeros() as u64;
        let hi_bits = 64 - hi.leading_zeros() as u64;
        let bits = lo_bits + self.below_u64(hi_bits - lo_bits + 1);
        let base = if bits >= 64 {
            u64::MAX
        } else {
            (1u64 << bits) - 1
        };
        let floor = if bits <= 1 {
            0
        } else {
            (1u64 << (bits - 1)) - 1
        };
        let v = floor + 1 + self.below_u64(base - floor);
        v.clamp(lo, hi)
    }

    pub fn bytes(&mut self, n: usize) -> Vec<u8> {
        let mut v = Vec::with_capacity(n);
        while v.len() < n {
            let x = self.next_u64().to_le_bytes();
            let take = (n - v.len()).min(8);
            v.extend_from_slice(&x[..take]);
        }
        v
    }
}
