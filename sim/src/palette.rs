//! Argument palettes.  Entries are harness-side descriptors (model structs and plain values);
//! coset values are built from them at the point of use.

use crate::model::*;
use crate::refcbor;
use crate::rng::Rng;
use coset::iana::{self, EnumI64};
use std::sync::OnceLock;

pub fn pat(len: usize, salt: u8) -> Vec<u8> {
    (0..len)
        .map(|i| (i as u8).wrapping_mul(31).wrapping_add(salt))
        .collect()
}

/// Byte strings of every CBOR length class (index order: cheap ones first).
pub fn bytes_palette() -> &'static Vec<Vec<u8>> {
    static P: OnceLock<Vec<Vec<u8>>> = OnceLock::new();
    P.get_or_init(|| {
        vec![
            vec![],
            vec![0x01],
            b"hello".to_vec(),
            b"hellp".to_vec(),
            pat(23, 1),
            pat(24, 2),
            pat(255, 3),
            pat(256, 4),
            pat(5000, 5),
            pat(65535, 6),
            pat(65536, 7),
        ]
    })
}

/// Index into bytes_palette weighted towards the short entries.
pub fn pick_bytes_idx(rng: &mut Rng) -> usize {
    rng.weighted(&[12, 12, 14, 10, 8, 8, 6, 6, 3, 1, 1])
}

/// Short byte strings only (0..=5 in the palette).
pub fn pick_small_bytes_idx(rng: &mut Rng) -> usize {
    rng.below(8)
}

pub fn text_palette() -> &'static Vec<String> {
    static P: OnceLock<Vec<String>> = OnceLock::new();
    P.get_or_init(|| {
        let mut long = String::new();
        while long.len() < 4094 {
            long.push('x');
        }
        // multi-byte characters straddling ciborium's 4096-byte scratch boundary
        long.push_str("€€€€");
        while long.len() < 5000 {
            long.push('y');
        }
        vec![
            String::new(),
            "a".into(),
            "text/plain".into(),
            "application/cose; cose-type=\"cose-sign1\"".into(),
            "application/cose; cose-type=\"cose-sign\"".into(),
            "application/cose; cose-type=\"cose-encrypt0\"".into(),
            "application/cose; cose-type=\"cose-encrypt\"".into(),
            "application/cose; cose-type=\"cose-mac\"".into(),
            "application/cose; cose-type=\"cose-mac0\"".into(),
            "application/cose-key".into(),
            "application/cose-key-set".into(),
            "application/cbor".into(),
            "application/cwt".into(),
            "application/json".into(),
            "text/plain; charset=utf-8".into(),
            "application/octet-stream".into(),
            "héllo wörld".into(),
            "x".repeat(24),
            "z".repeat(256),
            // (appended later: indices above are referenced by stored traces; the long text stays
            // last) the registered NAMES of typed fields - text labels that merely look reserved
            "iss".into(),
            "sub".into(),
            "aud".into(),
            "exp".into(),
            "nbf".into(),
            "iat".into(),
            "cti".into(),
            "alg".into(),
            "crit".into(),
            "content type".into(),
            "kid".into(),
            "IV".into(),
            "Partial IV".into(),
            "counter signature".into(),
            "kty".into(),
            "key_ops".into(),
            "Base IV".into(),
            "crv".into(),
            "k".into(),
            "1".into(),
            "-1".into(),
            "Text/Plain".into(),
            long,
        ]
    })
}

pub fn pick_text_idx(rng: &mut Rng) -> usize {
    {
        let n = text_palette().len();
        // the last entry is the 5000-byte text: rare
        if rng.chance(1, 60) {
            n - 1
        } else {
            rng.below(n - 1)
        }
    }
}

/// Labels for `HeaderBuilder::value`, `CoseKeyBuilder::param`: reserved, boundary and extreme.
pub const LABELS: &[i64] = &[
    -65537,
    -65536,
    -4,
    -1,
    0,
    1,
    2,
    3,
    4,
    5,
    6,
    7,
    8,
    9,
    10,
    23,
    24,
    256,
    1000,
    1001,
    65536,
    i64::MIN,
    i64::MAX,
];

pub const ALGS: &[i64] = &[-7, -35, -36, -8, 1, 3, 5, 24, -65535, 0, -260];
pub const HEADER_PARAMS: &[i64] = &[1, 2, 3, 4, 5, 6, 7, 9, 10, 32, 33, 34, 35, 256, 257, 0];
pub const CONTENT_FORMATS: &[i64] = &[0, 16, 17, 18, 42, 60, 61, 96, 97, 98, 101, 102, 11544];
pub const KEY_TYPES: &[i64] = &[0, 1, 2, 3, 4, 5, 6];
pub const KEY_OPS: &[i64] = &[1, 2, 3, 4, 5, 6, 7, 8, 9, 10];
pub const CURVES: &[i64] = &[0, 1, 2, 3, 4, 5, 6, 7, 8];
pub const CLAIM_NAMES: &[i64] = &[
    -260, -259, -258, -257, 0, 1, 2, 3, 4, 5, 6, 7, 8, 9, 38, 39, 40,
];
pub const PRIVATE_IDS: &[i64] = &[
    -65537,
    -65538,
    -70000,
    i64::MIN,
    -65536,
    -65535,
    -1,
    0,
    1,
    7,
    8,
    i64::MAX,
];
pub const TIMESTAMPS_WHOLE: &[i64] = &[0, 1, -1, 1_600_000_000, i64::MAX, i64::MIN];
pub const TIMESTAMPS_FRAC: &[f64] = &[0.5, 1.6e9, -1.25, 1e300];
/// Doubles worth meeting, as bit patterns: zeros, values at the edges of the three CBOR float
/// widths, integral values, infinities and NaNs of every flavour (sign, payload, signalling).
pub fn float_bits(rng: &mut Rng) -> u64 {
    const F: &[u64] = &[
        0x0000_0000_0000_0000, // 0.0
        0x8000_0000_0000_0000, // -0.0
        0x3ff8_0000_0000_0000, // 1.5
        0xc002_0000_0000_0000, // -2.25
        0x3ff0_0000_0000_0000, // 1.0
        0xc008_0000_0000_0000, // -3.0
        0x41d9_5560_3000_0000, // 1.7e9 (a date)
        0x4340_0000_0000_0000, // 2^53
        0x43e0_0000_0000_0000, // 2^63
        0xc3e0_0000_0000_0000, // -2^63
        0x3fb9_9999_9999_999a, // 0.1
        0x3fb9_9999_a000_0000, // 0.1f32
        0x40ef_fc00_0000_0000, // 65504 (largest half)
        0x40ef_fc20_0000_0000, // 65505
        0x3e70_0000_0000_0000, // 2^-24 (smallest half subnormal)
        0x3e60_0000_0000_0000, // 2^-25
        0x0000_0000_0000_0001, // smallest double subnormal
        0x7e37_e43c_8800_759c, // 1e300
        0x7ff0_0000_0000_0000, // inf
        0xfff0_0000_0000_0000, // -inf
        0x7ff8_0000_0000_0000, // NaN
        0xfff8_0000_0000_0000, // -NaN (x86 0.0/0.0)
        0x7ff8_0000_0000_0001, // NaN with a low payload bit
        0x7ffc_0000_0000_0000, // NaN with a high payload bit
        0x7ff4_0000_0000_0000, // signalling NaN
        0xfff0_0000_0000_0001, // negative signalling NaN, low payload
    ];
    if rng.chance(1, 8) {
        rng.next_u64()
    } else {
        *rng.pick(F)
    }
}

pub const NONCE_INTS: &[i64] = &[0, 1, -1, 24, i64::MAX, i64::MIN];
pub const KEY_DATA_LENGTHS: &[u64] = &[0, 1, 128, 256, 65536, u64::MAX];

pub fn value_palette() -> &'static Vec<MValue> {
    static P: OnceLock<Vec<MValue>> = OnceLock::new();
    P.get_or_init(|| {
        vec![
            MValue::Int(0),
            MValue::Int(1),
            MValue::Int(-1),
            MValue::Int(u64::MAX as i128),
            MValue::Int(-(1i128 << 64)),
            MValue::Bytes(vec![]),
            MValue::Bytes(vec![1, 2, 3]),
            MValue::Text("".into()),
            MValue::Text("value".into()),
            MValue::Bool(true),
            MValue::Bool(false),
            MValue::Null,
            MValue::Float(1.5f64.to_bits()),
            MValue::Array(vec![]),
            MValue::Array(vec![MValue::Int(1), MValue::Text("x".into())]),
            MValue::Map(vec![(MValue::Int(1), MValue::Int(2))]),
            MValue::Tag(1, Box::new(MValue::Int(1_600_000_000))),
            MValue::Array(vec![MValue::Map(vec![(
                MValue::Text("k".into()),
                MValue::Array(vec![MValue::Null]),
            )])]),
            // (appended later: indices above are referenced by stored traces)
            MValue::Float(0xfff8_0000_0000_0000),
            MValue::Float(0x7ff8_0000_0000_0001),
            MValue::Float(0x7ff0_0000_0000_0000),
            MValue::Float(0x8000_0000_0000_0000),
            MValue::Float(0x41d9_5560_3000_0000),
            MValue::Array(vec![
                MValue::Float(0x7ff4_0000_0000_0000),
                MValue::Float(0x3fb9_9999_9999_999a),
            ]),
        ]
    })
}

fn sig(p: MHeader, u: MHeader, s: &[u8]) -> MSignature {
    MSignature {
        protected: MProtected::built(p),
        unprotected: u,
        signature: s.to_vec(),
    }
}

/// Header descriptors.  For each field there is a pair of entries that differ only in that field.
pub fn header_palette() -> &'static Vec<MHeader> {
    static P: OnceLock<Vec<MHeader>> = OnceLock::new();
    P.get_or_init(|| {
        let h = MHeader::default;
        let alg = |a: i64| MHeader {
            alg: Some(MRegP::Assigned(a)),
            ..h()
        };
        let kid = |k: &[u8]| MHeader {
            key_id: k.to_vec(),
            ..h()
        };
        let mut v = vec![
            h(),        // 0
            alg(-7),    // 1
            alg(-35),   // 2
            kid(b"11"), // 3
            kid(b"12"), // 4
            MHeader {
                key_id: b"11".to_vec(),
                ..alg(-7)
            }, // 5
            MHeader {
                key_id: b"12".to_vec(),
                ..alg(-7)
            }, // 6
            MHeader {
                crit: vec![MReg::Assigned(1)],
                ..h()
            }, // 7
            MHeader {
                crit: vec![MReg::Assigned(1), MReg::Text("x".into())],
                ..h()
            }, // 8
            MHeader {
                content_type: Some(MReg::Assigned(60)),
                ..h()
            }, // 9
            MHeader {
                content_type: Some(MReg::Text("text/plain".into())),
                ..h()
            }, // 10
            MHeader {
                iv: vec![1, 2, 3],
                ..h()
            }, // 11
            MHeader {
                partial_iv: vec![1, 2, 3],
                ..h()
            }, // 12
            MHeader {
                iv: vec![1, 2, 4],
                ..h()
            }, // 13
            MHeader {
                rest: vec![(MLabel::Int(1000), MValue::Int(1))],
                ..h()
            }, // 14
            MHeader {
                rest: vec![(MLabel::Int(1000), MValue::Int(2))],
                ..h()
            }, // 15
            MHeader {
                rest: vec![(MLabel::Text("lbl".into()), MValue::Bytes(vec![9]))],
                ..h()
            }, // 16
            MHeader {
                rest: vec![
                    (
                        MLabel::Int(-70000),
                        MValue::Array(vec![MValue::Int(1), MValue::Null]),
                    ),
                    (MLabel::Int(i64::MAX), MValue::Null),
                ],
                ..h()
            }, // 17
            MHeader {
                counter_signatures: vec![sig(alg(-7), kid(b"cs"), b"CS1")],
                ..h()
            }, // 18
            MHeader {
                counter_signatures: vec![sig(alg(-7), kid(b"cs"), b"CS1"), sig(h(), h(), b"CS2")],
                ..h()
            }, // 19
            MHeader {
                counter_signatures: vec![sig(alg(-35), kid(b"cs"), b"CS1")],
                ..h()
            }, // 20
            MHeader {
                alg: Some(MRegP::Assigned(-8)),
                crit: vec![MReg::Assigned(4)],
                content_type: Some(MReg::Assigned(0)),
                key_id: b"kid".to_vec(),
                iv: vec![],
                partial_iv: vec![7, 7],
                counter_signatures: vec![sig(kid(b"inner"), h(), b"")],
                rest: vec![
                    (MLabel::Int(8), MValue::Int(8)),
                    (MLabel::Text("t".into()), MValue::Text("v".into())),
                ],
            }, // 21
            MHeader {
                alg: Some(MRegP::Private(-70000)),
                ..h()
            }, // 22
            MHeader {
                alg: Some(MRegP::Text("custom".into())),
                ..h()
            }, // 23
            kid(&pat(300, 9)), // 24 (protected bstr > 255 bytes)
            MHeader {
                rest: vec![(
                    MLabel::Int(0),
                    MValue::Text(text_palette().last().unwrap().clone()),
                )],
                ..h()
            }, // 25
            MHeader {
                key_id: b"11".to_vec(),
                ..alg(-35)
            }, // 26
            MHeader {
                content_type: Some(MReg::Assigned(42)),
                ..h()
            }, // 27
        ];
        // headers that a sender can emit through struct literals and that do NOT re-encode to the
        // same bytes after a parse (so "reuse the wire bytes" and "re-encode the parsed header" differ):
        // a label of a typed field supplied as an extra parameter after another typed field ...
        v.push(MHeader {
            key_id: b"kid".to_vec(),
            rest: vec![(MLabel::Int(1), MValue::Int(-3))],
            ..h()
        }); // 28
            // ... and an extra parameter whose value is a small bignum (tag 2), which the CBOR layer
            // folds into a plain integer when parsing
        v.push(MHeader {
            rest: vec![(
                MLabel::Int(1000),
                MValue::Tag(2, Box::new(MValue::Bytes(vec![1]))),
            )],
            ..h()
        }); // 29
            // headers that consist of ONE registered extension parameter only (CounterSignature0, kid
            // context, x5bag, x5chain, x5t, x5u, CUPH nonce): nothing but that parameter makes them
            // non-empty
        for l in [9i64, 10, 32, 33, 34, 35, 256] {
            v.push(MHeader {
                rest: vec![(MLabel::Int(l), MValue::Bytes(vec![1, 2, 3]))],
                ..h()
            });
        }
        v.push(MHeader {
            rest: vec![(MLabel::Int(10), MValue::Bytes(vec![4, 5, 6]))],
            ..h()
        });
        // pairs that differ only INSIDE a structured extra-parameter value of the same shape
        // (an x5chain-like array of one certificate; a one-entry map): anything that summarises a
        // header by its shape would conflate them
        v.push(MHeader {
            rest: vec![(
                MLabel::Int(33),
                MValue::Array(vec![MValue::Bytes(b"cert-A".to_vec())]),
            )],
            ..h()
        });
        v.push(MHeader {
            rest: vec![(
                MLabel::Int(33),
                MValue::Array(vec![MValue::Bytes(b"cert-B".to_vec())]),
            )],
            ..h()
        });
        v.push(MHeader {
            rest: vec![(
                MLabel::Int(1001),
                MValue::Map(vec![(MValue::Int(1), MValue::Text("a".into()))]),
            )],
            ..h()
        });
        v.push(MHeader {
            rest: vec![(
                MLabel::Int(1001),
                MValue::Map(vec![(MValue::Int(1), MValue::Text("b".into()))]),
            )],
            ..h()
        });
        v.push(MHeader {
            rest: vec![(
                MLabel::Int(1001),
                MValue::Map(vec![(MValue::Int(2), MValue::Text("a".into()))]),
            )],
            ..h()
        });
        // protected bstr whose serialised length sits exactly on each CBOR head boundary
        // ({4: kid} encodes as a1 04 <head> <kid>): 23, 24, 255, 256 bytes here; 65535 and 65536 are
        // appended last (rarely picked, they are expensive)
        v.push(kid(&pat(20, 15)));
        v.push(kid(&pat(21, 16)));
        v.push(kid(&pat(251, 17)));
        v.push(kid(&pat(252, 18)));
        // protected bstr in the 24..=255 and 128..=255 length classes
        v.push(kid(&pat(60, 13)));
        v.push(kid(&pat(200, 14)));
        // a header nesting a counter signature whose own protected header holds a counter signature
        let inner = MHeader {
            counter_signatures: vec![sig(alg(-7), h(), b"deep")],
            ..h()
        };
        v.push(MHeader {
            counter_signatures: vec![sig(inner, h(), b"outer")],
            ..h()
        }); // 30
        v.push(kid(&pat(65530, 19)));
        v.push(kid(&pat(65531, 20)));
        v
    })
}

/// Number of expensive entries at the end of the header palette.
pub const BIG_HEADERS: usize = 2;

thread_local! {
    /// the header a generated history keeps coming back to (set per run by the generators)
    static FAVOURITE_HEADER: std::cell::Cell<Option<usize>> = const { std::cell::Cell::new(None) };
}

/// Half of the histories have a favourite non-empty header that a quarter of their header draws
/// return: layers of one message (body and signers, body and recipients, successive calls)
/// often carry the same header, and only then can a confusion between them show.
pub fn draw_favourite_header(rng: &mut Rng) {
    let n = header_palette().len();
    let f = if rng.bool() {
        Some(1 + rng.below(n - BIG_HEADERS - 1))
    } else {
        None
    };
    FAVOURITE_HEADER.with(|c| c.set(f));
}
pub fn clear_favourite_header() {
    FAVOURITE_HEADER.with(|c| c.set(None));
}

/// Weighted header index: the empty header and the simple ones most often.
pub fn pick_header_idx(rng: &mut Rng) -> usize {
    let n = header_palette().len();
    if let Some(f) = FAVOURITE_HEADER.with(|c| c.get()) {
        if rng.chance(1, 4) {
            return f;
        }
    }
    if rng.chance(1, 8) {
        0
    } else if rng.chance(1, 100) {
        n - 1 - rng.below(BIG_HEADERS)
    } else {
        rng.below(n - BIG_HEADERS)
    }
}

/// Start-up self check: palette headers are pairwise different as descriptors and as reference
/// encodings.  A failure here is a harness error, never a property violation.
pub fn check_palettes() -> Result<(), String> {
    let hs = header_palette();
    let encs: Vec<Vec<u8>> = hs.iter().map(|h| refcbor::encode(&h.to_item())).collect();
    for i in 0..hs.len() {
        for j in (i + 1)..hs.len() {
            if hs[i] == hs[j] {
                return Err(format!("header palette entries {} and {} are equal", i, j));
            }
            if encs[i] == encs[j] {
                return Err(format!(
                    "header palette entries {} and {} encode equally",
                    i, j
                ));
            }
        }
        // reference encodings must be well-formed CBOR
        if refcbor::read_exact(&encs[i]).is_err() {
            return Err(format!(
                "header palette entry {} reference encoding malformed",
                i
            ));
        }
    }
    // the boundary entries must really sit on the boundaries (reference encoding lengths)
    let mut lens: Vec<usize> = encs.iter().map(|e| e.len()).collect();
    lens.sort();
    for want in [23usize, 24, 255, 256, 65535, 65536] {
        if !lens.contains(&want) {
            return Err(format!(
                "no header palette entry whose reference encoding is {} bytes long",
                want
            ));
        }
    }
    let bs = bytes_palette();
    for i in 0..bs.len() {
        for j in (i + 1)..bs.len() {
            if bs[i] == bs[j] {
                return Err(format!("bytes palette entries {} and {} are equal", i, j));
            }
        }
    }
    Ok(())
}

/// Every value of a registry in [-70000, 70000], found by scanning `from_i64` once.
pub fn registry<T: EnumI64>(cell: &'static std::sync::OnceLock<Vec<i64>>) -> &'static [i64] {
    cell.get_or_init(|| {
        (-70_000i64..=70_000)
            .filter(|i| T::from_i64(*i).is_some())
            .collect()
    })
}
macro_rules! reg_list {
    ($name:ident, $t:ty) => {
        pub fn $name() -> &'static [i64] {
            static C: std::sync::OnceLock<Vec<i64>> = std::sync::OnceLock::new();
            registry::<$t>(&C)
        }
    };
}
reg_list!(all_algs, iana::Algorithm);
reg_list!(all_header_params, iana::HeaderParameter);
reg_list!(all_content_formats, iana::CoapContentFormat);
reg_list!(all_key_types, iana::KeyType);
reg_list!(all_key_ops, iana::KeyOperation);
reg_list!(all_curves, iana::EllipticCurve);
reg_list!(all_claim_names, iana::CwtClaimName);
