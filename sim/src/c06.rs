//! C06 - what is signed, MACed or encrypted is what is later verified or decrypted.
//! Sender history (real builders + recording crypto stub that can fail) -> encode -> wire with
//! region-targeted tampering -> decode -> verify plan with equal and perturbed AAD / payload.
//! Oracle: invariants I1..I5 of DESIGN.md section 5.2 over the log of create events and
//! verification calls.

use crate::common::*;
use crate::engine::*;
use crate::palette::*;
use crate::refcbor::{self, Item, Kind};
use crate::rng::Rng;
use crate::trace::*;
use crate::util::{hex_short, Hasher64};
use coset::{CborSerializable, TaggedCborSerializable};
use std::cell::RefCell;

pub struct C06;

pub const KINDS: &[&str] = &[
    "CoseSign1",
    "CoseSign",
    "CoseMac",
    "CoseMac0",
    "CoseEncrypt",
    "CoseEncrypt0",
    "CoseRecipient",
];

/// What a structure covers: context, protected bytes, AAD, payload (None for Enc_structure).
#[derive(Clone, Debug, PartialEq)]
struct Tuple {
    ctx: String,
    body: Vec<u8>,
    sign: Option<Vec<u8>>,
    aad: Vec<u8>,
    payload: Option<Vec<u8>>,
}

#[derive(Clone, Debug)]
struct Obs {
    tuple: Tuple,
    bytes: Vec<u8>,
    what: String,
}

#[derive(Default)]
struct Stub {
    next: u64,
    /// varies the size pattern of the tokens from run to run
    salt: u64,
    calls: u64,
    /// bytes handed to the most recent creator call, and the plaintext for ciphers
    last_bytes: Option<Vec<u8>>,
    last_plain: Option<Vec<u8>>,
}

impl Stub {
    /// Unique per call (so that every stored value is attributable to one create event), padded
    /// to one of the usual signature / tag / ciphertext sizes half of the time.
    fn token(&mut self) -> Vec<u8> {
        self.next += 1;
        let mut t = format!("TOK#{}#", self.next).into_bytes();
        let pick = (self.next as usize * 7 + self.salt as usize) % 14;
        // two in fourteen: a DER-encoded ECDSA signature (what non-COSE signers return) whose r
        // carries the marker
        if pick >= 12 {
            return crate::common::der_ecdsa_sig(&t, if pick == 12 { 32 } else { 48 });
        }
        let sizes = [0usize, 0, 0, 0, 8, 16, 32, 48, 64, 66, 96, 132];
        let n = sizes[pick];
        while t.len() < n {
            t.push((t.len() as u8).wrapping_mul(41));
        }
        t
    }
}

/// Bytes coset puts into the protected slot for palette header `idx` built in memory.
fn enc_protected(h: &crate::model::MHeader) -> Result<Vec<u8>, String> {
    let p = coset::ProtectedHeader {
        original_data: None,
        header: h.to_coset(),
    };
    match guarded(|| p.cbor_bstr()) {
        Ok(Ok(coset::cbor::value::Value::Bytes(b))) => Ok(b),
        Ok(Ok(_)) => Err("cbor_bstr did not return a byte string".into()),
        Ok(Err(e)) => Err(format!("cbor_bstr failed: {:?}", e)),
        Err(p) => Err(format!("cbor_bstr panicked: {}", p)),
    }
}

// ------------------------------------------------------------------------------------------
// generation
// ------------------------------------------------------------------------------------------

fn a_aad(rng: &mut Rng) -> Arg {
    if rng.chance(1, 8) {
        // any length, not only the boundary classes of the palette
        let n = rng.log_uniform(1, 70_000) as usize;
        return Arg::B(pat(n, 11));
    }
    let p = bytes_palette();
    Arg::B(p[rng.weighted(&[140, 80, 140, 120, 40, 40, 20, 20, 10, 3, 3])].clone())
}
fn a_payload(rng: &mut Rng) -> Arg {
    if rng.chance(1, 8) {
        let n = rng.log_uniform(1, 70_000) as usize;
        return Arg::B(pat(n, 12));
    }
    let p = bytes_palette();
    Arg::B(p[rng.weighted(&[8, 8, 14, 12, 6, 6, 3, 3, 2, 1, 1])].clone())
}
fn a_hdr(rng: &mut Rng) -> Arg {
    gen_header_arg(rng)
}
fn a_flag(rng: &mut Rng, num: u32, den: u32) -> Arg {
    Arg::I(rng.chance(num, den) as i128)
}

/// Nested recipient descriptor: protected idx, unprotected idx, context, plaintext, aad, fallible,
/// inner (0/1: carries one further nested recipient built the same way with fixed arguments).
fn gen_rcpt_args(rng: &mut Rng) -> Vec<Arg> {
    vec![
        a_hdr(rng),
        a_hdr(rng),
        Arg::S(ctx_name(2 + rng.below(3)).into()),
        a_payload(rng),
        a_aad(rng),
        a_flag(rng, 1, 2),
        a_flag(rng, 1, 3),
        a_hdr(rng),
    ]
}

fn gen_history(kind: &str, rng: &mut Rng) -> Vec<Step> {
    let o = Step::op;
    let n = rng.range(1, 14);
    let mut ops = Vec::new();
    let mut payload_set = false;
    let has_payload = matches!(kind, "CoseSign1" | "CoseSign" | "CoseMac" | "CoseMac0");
    // most histories start the usual way (headers, payload, then create); the rest are free-form
    let usual = rng.chance(1, 2);
    for i in 0..n {
        let choice = if usual && i < 3 { i } else { 3 + rng.below(6) };
        match choice {
            0 => ops.push(o("protected", vec![a_hdr(rng)])),
            1 => ops.push(o("unprotected", vec![a_hdr(rng)])),
            2 | 3 => {
                if has_payload && !(choice == 2 && rng.chance(1, 3)) {
                    ops.push(o("payload", vec![a_payload(rng)]));
                    payload_set = true;
                } else {
                    ops.push(o("protected", vec![a_hdr(rng)]));
                }
            }
            4 => ops.push(o(
                if rng.bool() {
                    "protected"
                } else {
                    "unprotected"
                },
                vec![a_hdr(rng)],
            )),
            5 => {
                // raw setter of the created slot
                let name = match kind {
                    "CoseSign1" => "signature",
                    "CoseMac" | "CoseMac0" => "tag",
                    "CoseSign" => "add_signature",
                    _ => "ciphertext",
                };
                if name == "add_signature" {
                    ops.push(o(name, gen_sig_args(rng)));
                } else {
                    ops.push(o(name, vec![a_payload(rng)]));
                }
            }
            8 => match kind {
                "CoseMac" | "CoseEncrypt" | "CoseRecipient" => {
                    ops.push(o("add_recipient", gen_rcpt_args(rng)))
                }
                _ => ops.push(o("unprotected", vec![a_hdr(rng)])),
            },
            _ => {
                // create helpers: args (aad, fallible, fail [, detached payload] ...)
                let fallible = a_flag(rng, 1, 2);
                let fail = a_flag(rng, 1, 6);
                match kind {
                    "CoseSign1" => {
                        if !payload_set && rng.bool() {
                            ops.push(o(
                                "create_detached",
                                vec![a_aad(rng), fallible, fail, a_payload(rng)],
                            ));
                        } else {
                            ops.push(o("create", vec![a_aad(rng), fallible, fail]));
                        }
                    }
                    "CoseSign" => {
                        let mut a = gen_sig_args(rng);
                        if !payload_set && rng.bool() {
                            a.extend([a_aad(rng), fallible, fail, a_payload(rng)]);
                            ops.push(o("add_detached", a));
                        } else {
                            a.extend([a_aad(rng), fallible, fail]);
                            ops.push(o("add_created", a));
                        }
                    }
                    "CoseMac" | "CoseMac0" => {
                        if payload_set {
                            ops.push(o("create", vec![a_aad(rng), fallible, fail]));
                        } else {
                            ops.push(o("payload", vec![a_payload(rng)]));
                            payload_set = true;
                        }
                    }
                    "CoseRecipient" => ops.push(o(
                        "create",
                        vec![
                            a_aad(rng),
                            fallible,
                            fail,
                            a_payload(rng),
                            Arg::S(ctx_name(2 + rng.below(3)).into()),
                        ],
                    )),
                    _ => ops.push(o(
                        "create",
                        vec![a_aad(rng), fallible, fail, a_payload(rng)],
                    )),
                }
            }
        }
    }
    if kind == "CoseSign" && rng.chance(1, 3000) {
        // "any number of signers": a block of n plain signers (distinct signature bytes) somewhere
        // in the history, n around the places where a count changes its encoding or its type
        let n = match rng.below(6) {
            0 => *rng.pick(&[23usize, 24, 25]),
            1 | 2 => *rng.pick(&[255usize, 256, 257]),
            3 => rng.range(300, 5000),
            _ => *rng.pick(&[65_535usize, 65_536, 65_537, 70_000]),
        };
        let at = rng.below(ops.len() + 1);
        ops.insert(at, o("add_signature_bulk", vec![Arg::I(n as i128)]));
    }
    ops
}

// ------------------------------------------------------------------------------------------
// sender
// ------------------------------------------------------------------------------------------

struct Sender {
    stub: RefCell<Stub>,
    obs: Vec<Obs>,
    /// tokens handed out by create events -> index into obs
    tokens: Vec<(Vec<u8>, usize)>,
    /// ops whose injected creator failure has already been consumed (retry)
    failed: Vec<usize>,
    prot: crate::model::MHeader,
    payload: Option<Vec<u8>>,
    st_fail_fired: u64,
    /// token of the most recent successful create call
    last_token: Option<Vec<u8>>,
    /// what the encoded message must carry: signature / tag / ciphertext slot, signers
    /// (protected bytes, signature), top-level recipients (protected bytes, ciphertext)
    slot: Option<Vec<u8>>,
    signers: Vec<(Vec<u8>, Vec<u8>)>,
    rcpts: Vec<(Vec<u8>, Option<Vec<u8>>)>,
}

enum SendErr {
    Violation(Violation),
    /// creator failed as injected at op index: retry from a fresh builder
    Retry(usize),
    Harness(HarnessError),
}

impl From<HarnessError> for SendErr {
    fn from(e: HarnessError) -> Self {
        SendErr::Harness(e)
    }
}

fn v5(msg: String) -> SendErr {
    SendErr::Violation(Violation::new("C06.I5", msg))
}

impl Sender {
    fn new(failed: Vec<usize>, salt: u64) -> Sender {
        Sender {
            stub: RefCell::new(Stub {
                salt,
                ..Stub::default()
            }),
            obs: vec![],
            tokens: vec![],
            failed,
            prot: crate::model::MHeader::default(),
            payload: None,
            st_fail_fired: 0,
            last_token: None,
            slot: None,
            signers: vec![],
            rcpts: vec![],
        }
    }

    fn enc(&self, h: &crate::model::MHeader) -> Result<Vec<u8>, SendErr> {
        enc_protected(h).map_err(|e| v5(format!("protected header {:?}: {}", h, e)))
    }

    /// Run one creator call through coset.  `call` receives the stub closure pieces and returns
    /// Ok(new builder) or Err(error string) for fallible helpers.
    #[allow(clippy::too_many_arguments)]
    fn create<B>(
        &mut self,
        idx: usize,
        step: &Step,
        tuple: Tuple,
        fallible: bool,
        fail: bool,
        plaintext: Option<&[u8]>,
        call: impl FnOnce(&RefCell<Stub>, Vec<u8>, bool) -> Result<B, String>,
    ) -> Result<B, SendErr> {
        let fail_now = fallible && fail && !self.failed.contains(&idx);
        let token = self.stub.borrow_mut().token();
        let calls_before = self.stub.borrow().calls;
        self.stub.borrow_mut().last_bytes = None;
        self.stub.borrow_mut().last_plain = None;
        let stub = &self.stub;
        let tok2 = token.clone();
        let r = guarded(move || call(stub, tok2, fail_now));
        let calls_after = self.stub.borrow().calls;
        let r = match r {
            Ok(r) => r,
            Err(p) => {
                return Err(v5(format!(
                    "op {} `{}` panicked: {}",
                    idx,
                    step.summary(),
                    p
                )))
            }
        };
        if calls_after != calls_before + 1 {
            return Err(SendErr::Violation(Violation::new(
                "C06.I4",
                format!(
                    "op {} `{}`: creator function called {} times, expected exactly once",
                    idx,
                    step.summary(),
                    calls_after - calls_before
                ),
            )));
        }
        let bytes = self.stub.borrow_mut().last_bytes.take().unwrap_or_default();
        if let Some(pt) = plaintext {
            let got = self.stub.borrow_mut().last_plain.take().unwrap_or_default();
            if got != pt {
                return Err(SendErr::Violation(Violation::new(
                    "C06.I1",
                    format!(
                        "op {} `{}`: cipher was handed plaintext {} instead of {}",
                        idx,
                        step.summary(),
                        hex_short(&got),
                        hex_short(pt)
                    ),
                )));
            }
        }
        self.obs.push(Obs {
            tuple,
            bytes,
            what: format!("create@op{} `{}`", idx, step.name),
        });
        match r {
            Ok(b) => {
                if fail_now {
                    return Err(SendErr::Violation(Violation::new(
                        "C06.I4",
                        format!("op {} `{}`: creator failed but the fallible helper returned Ok (a message was built)", idx, step.summary()),
                    )));
                }
                self.tokens.push((token.clone(), self.obs.len() - 1));
                self.last_token = Some(token);
                Ok(b)
            }
            Err(e) => {
                let want = err_for(&token);
                if !fail_now || e != want {
                    return Err(SendErr::Violation(Violation::new(
                        "C06.I4",
                        format!("op {} `{}`: fallible helper returned error {:?}; injected failure: {} (expected error {:?})", idx, step.summary(), e, fail_now, want),
                    )));
                }
                self.st_fail_fired += 1;
                Err(SendErr::Retry(idx))
            }
        }
    }
}

fn err_for(token: &[u8]) -> String {
    format!("ERR:{}", String::from_utf8_lossy(token))
}

fn signer(
    stub: &RefCell<Stub>,
    token: Vec<u8>,
    fail: bool,
) -> impl FnOnce(&[u8]) -> Result<Vec<u8>, String> + '_ {
    move |data: &[u8]| {
        crate::common::layered_use();
        let mut s = stub.borrow_mut();
        s.calls += 1;
        s.last_bytes = Some(data.to_vec());
        if fail {
            Err(err_for(&token))
        } else {
            Ok(token)
        }
    }
}

fn cipher(
    stub: &RefCell<Stub>,
    token: Vec<u8>,
    fail: bool,
) -> impl FnOnce(&[u8], &[u8]) -> Result<Vec<u8>, String> + '_ {
    move |pt: &[u8], aad: &[u8]| {
        crate::common::layered_use();
        let mut s = stub.borrow_mut();
        s.calls += 1;
        s.last_bytes = Some(aad.to_vec());
        s.last_plain = Some(pt.to_vec());
        if fail {
            Err(err_for(&token))
        } else {
            Ok(token)
        }
    }
}

fn norm(p: &Option<Vec<u8>>) -> Option<Vec<u8>> {
    Some(p.clone().unwrap_or_default())
}

/// Build a nested recipient with its own small builder history.
fn build_rcpt(
    s: &mut Sender,
    idx: usize,
    step: &Step,
    at: usize,
) -> Result<coset::CoseRecipient, SendErr> {
    let hp = header_from_arg(step, at)?;
    let hu = header_from_arg(step, at + 1)?;
    let cn = step.sym(at + 2)?.to_string();
    let pt = step.bytes(at + 3)?.to_vec();
    let aad = step.bytes(at + 4)?.to_vec();
    let fallible = step.int(at + 5)? == 1;
    let inner = step.int(at + 6)? == 1;
    let hin = header_from_arg(step, at + 7)?;
    let ctx = ctx_from_name(&cn)?;
    let mut b = coset::CoseRecipientBuilder::new()
        .protected(hp.to_coset())
        .unprotected(hu.to_coset());
    if inner {
        // second nesting level: built first, with its own create event
        let tuple = Tuple {
            ctx: "RecRecipient".into(),
            body: s.enc(&hin)?,
            sign: None,
            aad: b"inner-aad".to_vec(),
            payload: None,
        };
        let ib = coset::CoseRecipientBuilder::new().protected(hin.to_coset());
        let ib = s.create(
            idx,
            step,
            tuple,
            false,
            false,
            Some(b"inner-pt"),
            move |stub, tok, _| {
                Ok(ib.create_ciphertext(
                    coset::EncryptionContext::RecRecipient,
                    b"inner-pt",
                    b"inner-aad",
                    |p, a| cipher(stub, tok, false)(p, a).unwrap(),
                ))
            },
        )?;
        b = b.add_recipient(ib.build());
    }
    let tuple = Tuple {
        ctx: cn.clone(),
        body: s.enc(&hp)?,
        sign: None,
        aad: aad.clone(),
        payload: None,
    };
    let pt2 = pt.clone();
    let b = s.create(
        idx,
        step,
        tuple,
        fallible,
        false,
        Some(&pt),
        move |stub, tok, _| {
            if fallible {
                b.try_create_ciphertext(ctx, &pt2, &aad, cipher(stub, tok, false))
            } else {
                Ok(b.create_ciphertext(ctx, &pt2, &aad, |p, a| {
                    cipher(stub, tok, false)(p, a).unwrap()
                }))
            }
        },
    )?;
    Ok(b.build())
}

enum Built {
    Sign1(coset::CoseSign1),
    Sign(coset::CoseSign),
    Mac(coset::CoseMac),
    Mac0(coset::CoseMac0),
    Encrypt(coset::CoseEncrypt),
    Encrypt0(coset::CoseEncrypt0),
    Recipient(coset::CoseRecipient),
}

macro_rules! common_ops {
    ($s:ident, $b:ident, $step:ident) => {
        match $step.name.as_str() {
            "protected" => {
                let h = header_from_arg($step, 0)?;
                $b = $b.protected(h.to_coset());
                $s.prot = h;
                true
            }
            "unprotected" => {
                $b = $b.unprotected(header_from_arg($step, 0)?.to_coset());
                true
            }
            _ => false,
        }
    };
}

fn send(kind: &str, ops: &[&Step], s: &mut Sender) -> Result<Built, SendErr> {
    match kind {
        "CoseSign1" => {
            let mut b = coset::CoseSign1Builder::new();
            for (idx, step) in ops.iter().enumerate() {
                if common_ops!(s, b, step) {
                    continue;
                }
                match step.name.as_str() {
                    "payload" => {
                        let p = step.bytes(0)?.to_vec();
                        s.payload = Some(p.clone());
                        b = b.payload(p);
                    }
                    "signature" => {
                        s.slot = Some(step.bytes(0)?.to_vec());
                        b = b.signature(step.bytes(0)?.to_vec());
                    }
                    "create" | "create_detached" => {
                        let aad = step.bytes(0)?.to_vec();
                        let fallible = step.int(1)? == 1;
                        let fail = step.int(2)? == 1;
                        let detached = step.name == "create_detached";
                        let dp = if detached {
                            Some(step.bytes(3)?.to_vec())
                        } else {
                            None
                        };
                        if detached && s.payload.is_some() {
                            return Err(HarnessError(
                                "generated history violates the detached precondition".into(),
                            )
                            .into());
                        }
                        let tuple = Tuple {
                            ctx: "Signature1".into(),
                            body: s.enc(&s.prot.clone())?,
                            sign: None,
                            aad: aad.clone(),
                            payload: if detached {
                                dp.clone()
                            } else {
                                norm(&s.payload)
                            },
                        };
                        let bb = b;
                        b = s.create(
                            idx,
                            step,
                            tuple,
                            fallible,
                            fail,
                            None,
                            move |stub, tok, f| match (detached, fallible) {
                                (false, false) => Ok(bb.create_signature(&aad, |d| {
                                    signer(stub, tok, false)(d).unwrap()
                                })),
                                (false, true) => {
                                    bb.try_create_signature(&aad, signer(stub, tok, f))
                                }
                                (true, false) => Ok(bb.create_detached_signature(
                                    dp.as_ref().unwrap(),
                                    &aad,
                                    |d| signer(stub, tok, false)(d).unwrap(),
                                )),
                                (true, true) => bb.try_create_detached_signature(
                                    dp.as_ref().unwrap(),
                                    &aad,
                                    signer(stub, tok, f),
                                ),
                            },
                        )?;
                        s.slot = s.last_token.clone();
                    }
                    x => return Err(HarnessError(format!("CoseSign1: unknown op {}", x)).into()),
                }
            }
            match guarded(move || b.build()) {
                Ok(m) => Ok(Built::Sign1(m)),
                Err(p) => Err(v5(format!("build() panicked: {}", p))),
            }
        }
        "CoseSign" => {
            let mut b = coset::CoseSignBuilder::new();
            for (idx, step) in ops.iter().enumerate() {
                if common_ops!(s, b, step) {
                    continue;
                }
                match step.name.as_str() {
                    "payload" => {
                        let p = step.bytes(0)?.to_vec();
                        s.payload = Some(p.clone());
                        b = b.payload(p);
                    }
                    "add_signature" => {
                        let sig = sig_from_args(step, 0)?;
                        let id = match &sig.protected.original {
                            Some(x) => x.clone(),
                            None => s.enc(&sig.protected.header)?,
                        };
                        s.signers.push((id, sig.signature.clone()));
                        b = b.add_signature(sig.to_coset());
                    }
                    "add_signature_bulk" => {
                        let n = step.usize(0)?;
                        for k in 0..n {
                            let sg = format!("S{}", k).into_bytes();
                            s.signers.push((Vec::new(), sg.clone()));
                            b = b.add_signature(coset::CoseSignature {
                                signature: sg,
                                ..Default::default()
                            });
                        }
                    }
                    "add_created" | "add_detached" => {
                        let sig = sig_from_args(step, 0)?;
                        // the signer's protected bytes: retained wire bytes of a decoded template,
                        // else what coset emits for the header
                        let sign_id = match &sig.protected.original {
                            Some(b) => b.clone(),
                            None => s.enc(&sig.protected.header)?,
                        };
                        let aad = step.bytes(3)?.to_vec();
                        let fallible = step.int(4)? == 1;
                        let fail = step.int(5)? == 1;
                        let detached = step.name == "add_detached";
                        let dp = if detached {
                            Some(step.bytes(6)?.to_vec())
                        } else {
                            None
                        };
                        if detached && s.payload.is_some() {
                            return Err(HarnessError(
                                "generated history violates the detached precondition".into(),
                            )
                            .into());
                        }
                        let tuple = Tuple {
                            ctx: "Signature".into(),
                            body: s.enc(&s.prot.clone())?,
                            sign: Some(sign_id.clone()),
                            aad: aad.clone(),
                            payload: if detached {
                                dp.clone()
                            } else {
                                norm(&s.payload)
                            },
                        };
                        let cs = sig.to_coset();
                        let sign_id2 = sign_id;
                        let bb = b;
                        b = s.create(
                            idx,
                            step,
                            tuple,
                            fallible,
                            fail,
                            None,
                            move |stub, tok, f| match (detached, fallible) {
                                (false, false) => Ok(bb.add_created_signature(cs, &aad, |d| {
                                    signer(stub, tok, false)(d).unwrap()
                                })),
                                (false, true) => {
                                    bb.try_add_created_signature(cs, &aad, signer(stub, tok, f))
                                }
                                (true, false) => Ok(bb.add_detached_signature(
                                    cs,
                                    dp.as_ref().unwrap(),
                                    &aad,
                                    |d| signer(stub, tok, false)(d).unwrap(),
                                )),
                                (true, true) => bb.try_add_detached_signature(
                                    cs,
                                    dp.as_ref().unwrap(),
                                    &aad,
                                    signer(stub, tok, f),
                                ),
                            },
                        )?;
                        s.signers
                            .push((sign_id2, s.last_token.clone().unwrap_or_default()));
                    }
                    x => return Err(HarnessError(format!("CoseSign: unknown op {}", x)).into()),
                }
            }
            match guarded(move || b.build()) {
                Ok(m) => Ok(Built::Sign(m)),
                Err(p) => Err(v5(format!("build() panicked: {}", p))),
            }
        }
        "CoseMac" => {
            let mut b = coset::CoseMacBuilder::new();
            for (idx, step) in ops.iter().enumerate() {
                if common_ops!(s, b, step) {
                    continue;
                }
                match step.name.as_str() {
                    "payload" => {
                        let p = step.bytes(0)?.to_vec();
                        s.payload = Some(p.clone());
                        b = b.payload(p);
                    }
                    "tag" => {
                        s.slot = Some(step.bytes(0)?.to_vec());
                        b = b.tag(step.bytes(0)?.to_vec());
                    }
                    "add_recipient" => {
                        let r = build_rcpt(s, idx, step, 0)?;
                        let rid = s.enc(&header_from_arg(step, 0)?)?;
                        s.rcpts.push((rid, s.last_token.clone()));
                        b = b.add_recipient(r);
                    }
                    "create" => {
                        let aad = step.bytes(0)?.to_vec();
                        let fallible = step.int(1)? == 1;
                        let fail = step.int(2)? == 1;
                        if s.payload.is_none() {
                            return Err(HarnessError(
                                "generated history violates the payload precondition".into(),
                            )
                            .into());
                        }
                        let tuple = Tuple {
                            ctx: "MAC".into(),
                            body: s.enc(&s.prot.clone())?,
                            sign: None,
                            aad: aad.clone(),
                            payload: s.payload.clone(),
                        };
                        let bb = b;
                        b = s.create(
                            idx,
                            step,
                            tuple,
                            fallible,
                            fail,
                            None,
                            move |stub, tok, f| {
                                if fallible {
                                    bb.try_create_tag(&aad, signer(stub, tok, f))
                                } else {
                                    Ok(bb
                                        .create_tag(&aad, |d| signer(stub, tok, false)(d).unwrap()))
                                }
                            },
                        )?;
                        s.slot = s.last_token.clone();
                    }
                    x => return Err(HarnessError(format!("CoseMac: unknown op {}", x)).into()),
                }
            }
            match guarded(move || b.build()) {
                Ok(m) => Ok(Built::Mac(m)),
                Err(p) => Err(v5(format!("build() panicked: {}", p))),
            }
        }
        "CoseMac0" => {
            let mut b = coset::CoseMac0Builder::new();
            for (idx, step) in ops.iter().enumerate() {
                if common_ops!(s, b, step) {
                    continue;
                }
                match step.name.as_str() {
                    "payload" => {
                        let p = step.bytes(0)?.to_vec();
                        s.payload = Some(p.clone());
                        b = b.payload(p);
                    }
                    "tag" => {
                        s.slot = Some(step.bytes(0)?.to_vec());
                        b = b.tag(step.bytes(0)?.to_vec());
                    }
                    "create" => {
                        let aad = step.bytes(0)?.to_vec();
                        let fallible = step.int(1)? == 1;
                        let fail = step.int(2)? == 1;
                        if s.payload.is_none() {
                            return Err(HarnessError(
                                "generated history violates the payload precondition".into(),
                            )
                            .into());
                        }
                        let tuple = Tuple {
                            ctx: "MAC0".into(),
                            body: s.enc(&s.prot.clone())?,
                            sign: None,
                            aad: aad.clone(),
                            payload: s.payload.clone(),
                        };
                        let bb = b;
                        b = s.create(
                            idx,
                            step,
                            tuple,
                            fallible,
                            fail,
                            None,
                            move |stub, tok, f| {
                                if fallible {
                                    bb.try_create_tag(&aad, signer(stub, tok, f))
                                } else {
                                    Ok(bb
                                        .create_tag(&aad, |d| signer(stub, tok, false)(d).unwrap()))
                                }
                            },
                        )?;
                        s.slot = s.last_token.clone();
                    }
                    x => return Err(HarnessError(format!("CoseMac0: unknown op {}", x)).into()),
                }
            }
            match guarded(move || b.build()) {
                Ok(m) => Ok(Built::Mac0(m)),
                Err(p) => Err(v5(format!("build() panicked: {}", p))),
            }
        }
        "CoseEncrypt" => {
            let mut b = coset::CoseEncryptBuilder::new();
            for (idx, step) in ops.iter().enumerate() {
                if common_ops!(s, b, step) {
                    continue;
                }
                match step.name.as_str() {
                    "ciphertext" => {
                        s.slot = Some(step.bytes(0)?.to_vec());
                        b = b.ciphertext(step.bytes(0)?.to_vec());
                    }
                    "add_recipient" => {
                        let r = build_rcpt(s, idx, step, 0)?;
                        let rid = s.enc(&header_from_arg(step, 0)?)?;
                        s.rcpts.push((rid, s.last_token.clone()));
                        b = b.add_recipient(r);
                    }
                    "create" => {
                        let aad = step.bytes(0)?.to_vec();
                        let fallible = step.int(1)? == 1;
                        let fail = step.int(2)? == 1;
                        let pt = step.bytes(3)?.to_vec();
                        let tuple = Tuple {
                            ctx: "Encrypt".into(),
                            body: s.enc(&s.prot.clone())?,
                            sign: None,
                            aad: aad.clone(),
                            payload: None,
                        };
                        let bb = b;
                        let pt2 = pt.clone();
                        b = s.create(
                            idx,
                            step,
                            tuple,
                            fallible,
                            fail,
                            Some(&pt),
                            move |stub, tok, f| {
                                if fallible {
                                    bb.try_create_ciphertext(&pt2, &aad, cipher(stub, tok, f))
                                } else {
                                    Ok(bb.create_ciphertext(&pt2, &aad, |p, a| {
                                        cipher(stub, tok, false)(p, a).unwrap()
                                    }))
                                }
                            },
                        )?;
                        s.slot = s.last_token.clone();
                    }
                    x => return Err(HarnessError(format!("CoseEncrypt: unknown op {}", x)).into()),
                }
            }
            match guarded(move || b.build()) {
                Ok(m) => Ok(Built::Encrypt(m)),
                Err(p) => Err(v5(format!("build() panicked: {}", p))),
            }
        }
        "CoseEncrypt0" => {
            let mut b = coset::CoseEncrypt0Builder::new();
            for (idx, step) in ops.iter().enumerate() {
                if common_ops!(s, b, step) {
                    continue;
                }
                match step.name.as_str() {
                    "ciphertext" => {
                        s.slot = Some(step.bytes(0)?.to_vec());
                        b = b.ciphertext(step.bytes(0)?.to_vec());
                    }
                    "create" => {
                        let aad = step.bytes(0)?.to_vec();
                        let fallible = step.int(1)? == 1;
                        let fail = step.int(2)? == 1;
                        let pt = step.bytes(3)?.to_vec();
                        let tuple = Tuple {
                            ctx: "Encrypt0".into(),
                            body: s.enc(&s.prot.clone())?,
                            sign: None,
                            aad: aad.clone(),
                            payload: None,
                        };
                        let bb = b;
                        let pt2 = pt.clone();
                        b = s.create(
                            idx,
                            step,
                            tuple,
                            fallible,
                            fail,
                            Some(&pt),
                            move |stub, tok, f| {
                                if fallible {
                                    bb.try_create_ciphertext(&pt2, &aad, cipher(stub, tok, f))
                                } else {
                                    Ok(bb.create_ciphertext(&pt2, &aad, |p, a| {
                                        cipher(stub, tok, false)(p, a).unwrap()
                                    }))
                                }
                            },
                        )?;
                        s.slot = s.last_token.clone();
                    }
                    x => return Err(HarnessError(format!("CoseEncrypt0: unknown op {}", x)).into()),
                }
            }
            match guarded(move || b.build()) {
                Ok(m) => Ok(Built::Encrypt0(m)),
                Err(p) => Err(v5(format!("build() panicked: {}", p))),
            }
        }
        "CoseRecipient" => {
            let mut b = coset::CoseRecipientBuilder::new();
            for (idx, step) in ops.iter().enumerate() {
                if common_ops!(s, b, step) {
                    continue;
                }
                match step.name.as_str() {
                    "ciphertext" => {
                        s.slot = Some(step.bytes(0)?.to_vec());
                        b = b.ciphertext(step.bytes(0)?.to_vec());
                    }
                    "add_recipient" => {
                        let r = build_rcpt(s, idx, step, 0)?;
                        let rid = s.enc(&header_from_arg(step, 0)?)?;
                        s.rcpts.push((rid, s.last_token.clone()));
                        b = b.add_recipient(r);
                    }
                    "create" => {
                        let aad = step.bytes(0)?.to_vec();
                        let fallible = step.int(1)? == 1;
                        let fail = step.int(2)? == 1;
                        let pt = step.bytes(3)?.to_vec();
                        let cn = step.sym(4)?.to_string();
                        let ctx = ctx_from_name(&cn)?;
                        let tuple = Tuple {
                            ctx: cn,
                            body: s.enc(&s.prot.clone())?,
                            sign: None,
                            aad: aad.clone(),
                            payload: None,
                        };
                        let bb = b;
                        let pt2 = pt.clone();
                        b = s.create(
                            idx,
                            step,
                            tuple,
                            fallible,
                            fail,
                            Some(&pt),
                            move |stub, tok, f| {
                                if fallible {
                                    bb.try_create_ciphertext(ctx, &pt2, &aad, cipher(stub, tok, f))
                                } else {
                                    Ok(bb.create_ciphertext(ctx, &pt2, &aad, |p, a| {
                                        cipher(stub, tok, false)(p, a).unwrap()
                                    }))
                                }
                            },
                        )?;
                        s.slot = s.last_token.clone();
                    }
                    x => {
                        return Err(HarnessError(format!("CoseRecipient: unknown op {}", x)).into())
                    }
                }
            }
            match guarded(move || b.build()) {
                Ok(m) => Ok(Built::Recipient(m)),
                Err(p) => Err(v5(format!("build() panicked: {}", p))),
            }
        }
        x => Err(HarnessError(format!("unknown builder kind {}", x)).into()),
    }
}

// ------------------------------------------------------------------------------------------
// wire
// ------------------------------------------------------------------------------------------

/// Byte ranges of the top-level regions of the encoded message.
fn regions(wire: &[u8], kind: &str) -> Option<Vec<(&'static str, usize, usize)>> {
    let root = refcbor::read_exact(wire).ok()?;
    let body = match &root.kind {
        Kind::Tag(_, inner) => (**inner).clone(),
        _ => root,
    };
    let a = body.as_array()?;
    let mut out = Vec::new();
    let content = |it: &Item| (it.start + it.head_len, it.end);
    let (s, e) = content(a.first()?);
    out.push(("protected", s, e));
    let u = a.get(1)?;
    out.push(("unprotected", u.start, u.end));
    let slot_names: &[&'static str] = match kind {
        "CoseSign1" | "CoseMac0" => &["payload", "slot"],
        "CoseSign" => &["payload", "nested"],
        "CoseMac" => &["payload", "slot", "nested"],
        "CoseEncrypt" => &["slot", "nested"],
        "CoseEncrypt0" => &["slot"],
        _ => &["slot", "nested"],
    };
    for (i, n) in slot_names.iter().enumerate() {
        if let Some(it) = a.get(2 + i) {
            let (s, e) = if matches!(it.kind, Kind::Bytes(_)) {
                content(it)
            } else {
                (it.start, it.end)
            };
            out.push((n, s, e));
        }
    }
    Some(out)
}

// ------------------------------------------------------------------------------------------
// receiver
// ------------------------------------------------------------------------------------------

#[derive(Clone)]
struct WireView {
    /// protected bstr content, unprotected ignored
    prot: Vec<u8>,
    payload: Option<Vec<u8>>,
    /// signature / tag / ciphertext of the structure itself (None = nil or absent)
    slot: Option<Vec<u8>>,
    nested: Vec<WireView>,
}

fn opt_b(it: &Item) -> Option<Option<Vec<u8>>> {
    if it.is_null() {
        Some(None)
    } else {
        it.as_bytes().map(|b| Some(b.to_vec()))
    }
}

/// Independent view of the wire bytes (harness CBOR reader), by structure kind.
fn view(it: &Item, kind: &str) -> Option<WireView> {
    let a = it.as_array()?;
    let prot = a.first()?.as_bytes()?.to_vec();
    let nested_of = |x: Option<&Item>, k: &str| -> Option<Vec<WireView>> {
        match x {
            None => Some(vec![]),
            Some(x) => x.as_array()?.iter().map(|r| view(r, k)).collect(),
        }
    };
    Some(match kind {
        "CoseSign1" | "CoseMac0" => WireView {
            prot,
            payload: opt_b(a.get(2)?)?,
            slot: Some(a.get(3)?.as_bytes()?.to_vec()),
            nested: vec![],
        },
        "CoseSign" => WireView {
            prot,
            payload: opt_b(a.get(2)?)?,
            slot: None,
            nested: nested_of(a.get(3), "CoseSignature")?,
        },
        "CoseSignature" => WireView {
            prot,
            payload: None,
            slot: Some(a.get(2)?.as_bytes()?.to_vec()),
            nested: vec![],
        },
        "CoseMac" => WireView {
            prot,
            payload: opt_b(a.get(2)?)?,
            slot: Some(a.get(3)?.as_bytes()?.to_vec()),
            nested: nested_of(a.get(4), "CoseRecipient")?,
        },
        "CoseEncrypt" => WireView {
            prot,
            payload: None,
            slot: opt_b(a.get(2)?)?,
            nested: nested_of(a.get(3), "CoseRecipient")?,
        },
        "CoseEncrypt0" => WireView {
            prot,
            payload: None,
            slot: opt_b(a.get(2)?)?,
            nested: vec![],
        },
        "CoseRecipient" => WireView {
            prot,
            payload: None,
            slot: opt_b(a.get(2)?)?,
            nested: nested_of(a.get(3), "CoseRecipient")?,
        },
        _ => return None,
    })
}

struct Plan {
    /// None = the AAD recorded at creation is unknown to the receiver: use this literal
    aad: Vec<u8>,
    detached: Vec<u8>,
    result_ok: bool,
    label: String,
}

struct Receiver<'a> {
    obs: &'a mut Vec<Obs>,
    st: &'a mut RunStats,
    n: u64,
}

impl<'a> Receiver<'a> {
    /// One verification / decryption call.  `call` runs the coset helper with the given verifier
    /// closure and returns its result mapped to Result<Vec<u8>, String>.
    fn check(
        &mut self,
        what: &str,
        tuple: Tuple,
        stored: &[u8],
        plan: &Plan,
        call: impl FnOnce(
            &mut dyn FnMut(&[u8], &[u8]) -> Result<Vec<u8>, String>,
        ) -> Result<Vec<u8>, String>,
    ) -> Result<(), Violation> {
        self.n += 1;
        let want_ret: Result<Vec<u8>, String> = if plan.result_ok {
            // verification helpers return (); decryption helpers return the plaintext
            Ok(if what.contains("decrypt") {
                format!("PT#{}", self.n).into_bytes()
            } else {
                Vec::new()
            })
        } else {
            Err(format!("VERR#{}", self.n))
        };
        let mut seen: Vec<(Vec<u8>, Vec<u8>)> = Vec::new();
        let wr = want_ret.clone();
        let mut verifier = |a: &[u8], b: &[u8]| -> Result<Vec<u8>, String> {
            crate::common::layered_use();
            seen.push((a.to_vec(), b.to_vec()));
            wr.clone()
        };
        let got = match guarded(|| call(&mut verifier)) {
            Ok(r) => r,
            Err(p) => {
                return Err(Violation::new(
                    "C06.I5",
                    format!("{} [{}] panicked: {}", what, plan.label, p),
                ))
            }
        };
        self.st.inc("verifications");
        if seen.len() != 1 {
            return Err(Violation::new(
                "C06.I3",
                format!(
                    "{} [{}]: caller's function invoked {} times",
                    what,
                    plan.label,
                    seen.len()
                ),
            ));
        }
        let (first, bytes) = seen.pop().unwrap();
        if first != stored {
            return Err(Violation::new(
                "C06.I1",
                format!("{} [{}]: caller's function was handed {} but the message on the wire stores {}", what, plan.label, hex_short(&first), hex_short(stored)),
            ));
        }
        if got != want_ret {
            return Err(Violation::new(
                "C06.I3",
                format!(
                    "{} [{}]: helper returned {:?} but the caller's function returned {:?}",
                    what, plan.label, got, want_ret
                ),
            ));
        }
        self.obs.push(Obs {
            tuple,
            bytes,
            what: format!("{} [{}]", what, plan.label),
        });
        Ok(())
    }
}

fn unit(r: Result<(), String>) -> Result<Vec<u8>, String> {
    r.map(|_| Vec::new())
}

/// Adapter: the verify helpers want FnOnce(&[u8], &[u8]) -> Result<(), E>; our recorder returns
/// Result<Vec<u8>, String> (Ok payload ignored for verify, used for decrypt).
fn as_verify<'v>(
    v: &'v mut dyn FnMut(&[u8], &[u8]) -> Result<Vec<u8>, String>,
) -> impl FnOnce(&[u8], &[u8]) -> Result<(), String> + 'v {
    move |a, b| v(a, b).map(|_| ())
}

fn recv_recipients(
    rx: &mut Receiver,
    rs: &[coset::CoseRecipient],
    views: &[WireView],
    path: &str,
    plan: &Plan,
) -> Result<(), Violation> {
    for (i, (r, w)) in rs.iter().zip(views).enumerate() {
        if let (Some(_), Some(stored)) = (&r.ciphertext, &w.slot) {
            for (cn, ctx) in [
                ("EncRecipient", coset::EncryptionContext::EncRecipient),
                ("MacRecipient", coset::EncryptionContext::MacRecipient),
                ("RecRecipient", coset::EncryptionContext::RecRecipient),
            ] {
                let tuple = Tuple {
                    ctx: cn.into(),
                    body: w.prot.clone(),
                    sign: None,
                    aad: plan.aad.clone(),
                    payload: None,
                };
                let want_ok = plan.result_ok;
                rx.check(
                    &format!("{}recipients[{}].decrypt({})", path, i, cn),
                    tuple,
                    stored,
                    plan,
                    |v| {
                        let r2 = r.decrypt(ctx, &plan.aad, |a, b| v(a, b));
                        let _ = want_ok;
                        r2
                    },
                )?;
            }
        }
        recv_recipients(
            rx,
            &r.recipients,
            &w.nested,
            &format!("{}recipients[{}].", path, i),
            plan,
        )?;
    }
    Ok(())
}

/// View of wire bytes (tag stripped if `tagged`), None if the harness reader cannot follow them.
fn wire_view(kind: &str, wire: &[u8], tagged: bool) -> Option<WireView> {
    let root = refcbor::read_exact(wire).ok()?;
    let body = match (&root.kind, tagged) {
        (Kind::Tag(_, inner), true) => (**inner).clone(),
        (_, false) => root.clone(),
        _ => return None,
    };
    view(&body, kind)
}

fn verify_sign1(
    rx: &mut Receiver,
    tag: &str,
    m: &coset::CoseSign1,
    w: &WireView,
    plans: &[Plan],
) -> Result<(), Violation> {
    let stored = w.slot.clone().unwrap_or_default();
    for plan in plans {
        let t = Tuple {
            ctx: "Signature1".into(),
            body: w.prot.clone(),
            sign: None,
            aad: plan.aad.clone(),
            payload: norm(&w.payload),
        };
        rx.check(&format!("{}verify_signature", tag), t, &stored, plan, |v| {
            unit(m.verify_signature(&plan.aad, as_verify(v)))
        })?;
        if w.payload.is_none() && m.payload.is_none() {
            let t = Tuple {
                ctx: "Signature1".into(),
                body: w.prot.clone(),
                sign: None,
                aad: plan.aad.clone(),
                payload: Some(plan.detached.clone()),
            };
            rx.check(
                &format!("{}verify_detached_signature", tag),
                t,
                &stored,
                plan,
                |v| unit(m.verify_detached_signature(&plan.detached, &plan.aad, as_verify(v))),
            )?;
        }
    }
    Ok(())
}

fn verify_sign(
    rx: &mut Receiver,
    tag: &str,
    m: &coset::CoseSign,
    w: &WireView,
    plans: &[Plan],
) -> Result<(), Violation> {
    if w.nested.len() != m.signatures.len() {
        return Err(Violation::new(
            "C06.I1",
            format!(
                "{}wire carries {} signatures but the decoded message has {}",
                tag,
                w.nested.len(),
                m.signatures.len()
            ),
        ));
    }
    // with very many signers a spread of indices is verified (both ends, evenly spaced between)
    let n = w.nested.len();
    let chosen: Vec<usize> = if n <= 48 {
        (0..n).collect()
    } else {
        let mut c: Vec<usize> = (0..8).chain(n - 8..n).collect();
        c.extend((1..16).map(|k| k * n / 16));
        c.extend(
            [254usize, 255, 256, 257, 65_534, 65_535, 65_536]
                .iter()
                .copied()
                .filter(|i| *i < n),
        );
        c.sort();
        c.dedup();
        c
    };
    for plan in plans {
        for (i, sw) in w.nested.iter().enumerate() {
            if chosen.binary_search(&i).is_err() {
                continue;
            }
            let stored = sw.slot.clone().unwrap_or_default();
            let t = Tuple {
                ctx: "Signature".into(),
                body: w.prot.clone(),
                sign: Some(sw.prot.clone()),
                aad: plan.aad.clone(),
                payload: norm(&w.payload),
            };
            rx.check(
                &format!("{}verify_signature({})", tag, i),
                t,
                &stored,
                plan,
                |v| unit(m.verify_signature(i, &plan.aad, as_verify(v))),
            )?;
            if w.payload.is_none() && m.payload.is_none() {
                let t = Tuple {
                    ctx: "Signature".into(),
                    body: w.prot.clone(),
                    sign: Some(sw.prot.clone()),
                    aad: plan.aad.clone(),
                    payload: Some(plan.detached.clone()),
                };
                rx.check(
                    &format!("{}verify_detached_signature({})", tag, i),
                    t,
                    &stored,
                    plan,
                    |v| {
                        unit(m.verify_detached_signature(
                            i,
                            &plan.detached,
                            &plan.aad,
                            as_verify(v),
                        ))
                    },
                )?;
            }
        }
    }
    Ok(())
}

fn verify_mac(
    rx: &mut Receiver,
    tag: &str,
    m: &coset::CoseMac,
    w: &WireView,
    plans: &[Plan],
) -> Result<(), Violation> {
    for plan in plans {
        if let (Some(p), Some(_)) = (&w.payload, &m.payload) {
            let t = Tuple {
                ctx: "MAC".into(),
                body: w.prot.clone(),
                sign: None,
                aad: plan.aad.clone(),
                payload: Some(p.clone()),
            };
            rx.check(
                &format!("{}verify_tag", tag),
                t,
                &w.slot.clone().unwrap_or_default(),
                plan,
                |v| unit(m.verify_tag(&plan.aad, as_verify(v))),
            )?;
        }
        recv_recipients(rx, &m.recipients, &w.nested, tag, plan)?;
    }
    Ok(())
}

fn verify_mac0(
    rx: &mut Receiver,
    tag: &str,
    m: &coset::CoseMac0,
    w: &WireView,
    plans: &[Plan],
) -> Result<(), Violation> {
    for plan in plans {
        if let (Some(p), Some(_)) = (&w.payload, &m.payload) {
            let t = Tuple {
                ctx: "MAC0".into(),
                body: w.prot.clone(),
                sign: None,
                aad: plan.aad.clone(),
                payload: Some(p.clone()),
            };
            rx.check(
                &format!("{}verify_tag", tag),
                t,
                &w.slot.clone().unwrap_or_default(),
                plan,
                |v| unit(m.verify_tag(&plan.aad, as_verify(v))),
            )?;
        }
    }
    Ok(())
}

fn verify_encrypt(
    rx: &mut Receiver,
    tag: &str,
    m: &coset::CoseEncrypt,
    w: &WireView,
    plans: &[Plan],
) -> Result<(), Violation> {
    for plan in plans {
        if let (Some(stored), Some(_)) = (&w.slot, &m.ciphertext) {
            let t = Tuple {
                ctx: "Encrypt".into(),
                body: w.prot.clone(),
                sign: None,
                aad: plan.aad.clone(),
                payload: None,
            };
            rx.check(&format!("{}decrypt", tag), t, stored, plan, |v| {
                m.decrypt(&plan.aad, |a, b| v(a, b))
            })?;
        }
        recv_recipients(rx, &m.recipients, &w.nested, tag, plan)?;
    }
    Ok(())
}

fn verify_encrypt0(
    rx: &mut Receiver,
    tag: &str,
    m: &coset::CoseEncrypt0,
    w: &WireView,
    plans: &[Plan],
) -> Result<(), Violation> {
    for plan in plans {
        if let (Some(stored), Some(_)) = (&w.slot, &m.ciphertext) {
            let t = Tuple {
                ctx: "Encrypt0".into(),
                body: w.prot.clone(),
                sign: None,
                aad: plan.aad.clone(),
                payload: None,
            };
            rx.check(&format!("{}decrypt", tag), t, stored, plan, |v| {
                m.decrypt(&plan.aad, |a, b| v(a, b))
            })?;
        }
    }
    Ok(())
}

fn verify_recipient(
    rx: &mut Receiver,
    tag: &str,
    m: &coset::CoseRecipient,
    w: &WireView,
    plans: &[Plan],
) -> Result<(), Violation> {
    for plan in plans {
        recv_recipients(
            rx,
            std::slice::from_ref(m),
            std::slice::from_ref(w),
            tag,
            plan,
        )?;
    }
    Ok(())
}

/// Receiver: decode, then verify the decoded message, a clone of it, the message after a second
/// encode+decode hop, and the message after the documented in-place edit
/// (`protected.original_data = None; protected.header = <another header>`).
#[allow(clippy::too_many_arguments)]
fn receive(
    kind: &str,
    wire: &[u8],
    tagged: bool,
    plans: &[Plan],
    replacement: Option<&crate::model::MHeader>,
    obs: &mut Vec<Obs>,
    st: &mut RunStats,
) -> Result<bool, Violation> {
    let w = match wire_view(kind, wire, tagged) {
        Some(w) => w,
        None => {
            // the harness reader cannot follow the (tampered) bytes; if coset still decodes them the
            // message is simply not judged
            return Ok(false);
        }
    };
    let mut rx = Receiver { obs, st, n: 0 };
    macro_rules! lifecycle {
        ($t:ty, $verify:ident, $dec:expr, $enc:expr) => {{
            let dec = $dec;
            let enc = $enc;
            let m: $t = match guarded(|| dec(wire)) {
                Ok(Ok(m)) => m,
                Ok(Err(_)) => return Ok(false),
                Err(p) => return Err(Violation::new("C06.I5", format!("decoding the wire bytes panicked: {}", p))),
            };
            $verify(&mut rx, "", &m, &w, plans)?;
            let first = &plans[..plans.len().min(1)];
            // a clone must verify exactly like the original
            let c = match guarded(|| m.clone()) {
                Ok(c) => c,
                Err(p) => return Err(Violation::new("C06.I5", format!("cloning the decoded message panicked: {}", p))),
            };
            $verify(&mut rx, "clone.", &c, &w, first)?;
            // second hop: re-encode the decoded message, decode again
            match guarded(|| enc(c)) {
                Ok(Ok(bytes2)) => {
                    if let (Ok(Ok(m2)), Some(w2)) = (guarded(|| dec(&bytes2)), wire_view(kind, &bytes2, tagged)) {
                        rx.st.inc("probe:second-hop-verified");
                        $verify(&mut rx, "second-hop.", &m2, &w2, first)?;
                    } else {
                        return Err(Violation::new("C06.I5", format!("the re-encoding of a decoded message is not accepted again: {}", hex_short(&bytes2))));
                    }
                }
                Ok(Err(e)) => return Err(Violation::new("C06.I5", format!("a decoded message does not re-encode: {:?}", e))),
                Err(p) => return Err(Violation::new("C06.I5", format!("re-encoding a decoded message panicked: {}", p))),
            }
            // documented in-place edit of a decoded message: drop the wire bytes, replace the header
            if let Some(h) = replacement {
                let mut mm = m.clone();
                mm.protected.original_data = None;
                mm.protected.header = h.to_coset();
                let mut wm = w.clone();
                wm.prot = enc_protected(h).map_err(|e| Violation::new("C06.I5", format!("replacement header: {}", e)))?;
                rx.st.inc("probe:edited-after-decode-verified");
                $verify(&mut rx, "edited.", &mm, &wm, first)?;
            }
        }};
    }
    match kind {
        "CoseSign1" => lifecycle!(
            coset::CoseSign1,
            verify_sign1,
            |b: &[u8]| if tagged {
                tagged_decode::<coset::CoseSign1>(b)
            } else {
                coset::CoseSign1::from_slice(b)
            },
            |m: coset::CoseSign1| if tagged {
                m.to_tagged_vec()
            } else {
                m.to_vec()
            }
        ),
        "CoseSign" => lifecycle!(
            coset::CoseSign,
            verify_sign,
            |b: &[u8]| if tagged {
                tagged_decode::<coset::CoseSign>(b)
            } else {
                coset::CoseSign::from_slice(b)
            },
            |m: coset::CoseSign| if tagged {
                m.to_tagged_vec()
            } else {
                m.to_vec()
            }
        ),
        "CoseMac" => lifecycle!(
            coset::CoseMac,
            verify_mac,
            |b: &[u8]| if tagged {
                tagged_decode::<coset::CoseMac>(b)
            } else {
                coset::CoseMac::from_slice(b)
            },
            |m: coset::CoseMac| if tagged {
                m.to_tagged_vec()
            } else {
                m.to_vec()
            }
        ),
        "CoseMac0" => lifecycle!(
            coset::CoseMac0,
            verify_mac0,
            |b: &[u8]| if tagged {
                tagged_decode::<coset::CoseMac0>(b)
            } else {
                coset::CoseMac0::from_slice(b)
            },
            |m: coset::CoseMac0| if tagged {
                m.to_tagged_vec()
            } else {
                m.to_vec()
            }
        ),
        "CoseEncrypt" => lifecycle!(
            coset::CoseEncrypt,
            verify_encrypt,
            |b: &[u8]| if tagged {
                tagged_decode::<coset::CoseEncrypt>(b)
            } else {
                coset::CoseEncrypt::from_slice(b)
            },
            |m: coset::CoseEncrypt| if tagged {
                m.to_tagged_vec()
            } else {
                m.to_vec()
            }
        ),
        "CoseEncrypt0" => lifecycle!(
            coset::CoseEncrypt0,
            verify_encrypt0,
            |b: &[u8]| if tagged {
                tagged_decode::<coset::CoseEncrypt0>(b)
            } else {
                coset::CoseEncrypt0::from_slice(b)
            },
            |m: coset::CoseEncrypt0| if tagged {
                m.to_tagged_vec()
            } else {
                m.to_vec()
            }
        ),
        "CoseRecipient" => lifecycle!(
            coset::CoseRecipient,
            verify_recipient,
            |b: &[u8]| coset::CoseRecipient::from_slice(b),
            |m: coset::CoseRecipient| m.to_vec()
        ),
        _ => {}
    }
    Ok(true)
}

fn tagged_decode<T: TaggedCborSerializable>(b: &[u8]) -> Result<T, coset::CoseError> {
    T::from_tagged_slice(b)
}

// ------------------------------------------------------------------------------------------
// engine
// ------------------------------------------------------------------------------------------

impl Engine for C06 {
    fn id(&self) -> &'static str {
        "C06"
    }
    fn info(&self) -> EngineInfo {
        EngineInfo {
            level: "exploration",
            rule: "Each run is one message lifecycle: a seeded history of 1-14 calls over all public methods of one of the seven creating builders (field setters in any order and multiplicity, raw slot setters, create/try_create/add_created/add_detached helpers, nested recipient builders two levels deep), build, encode (tagged or untagged), 0-2 region-targeted bit flips on the wire, decode, and a verify plan (creation AAD/payload and perturbed ones, verifier result Ok or Err) applied to every signer / tag / ciphertext / nested recipient. Every create event and verification call is logged as (covered tuple, bytes handed to the caller's function); I2 demands bytes equal iff tuples equal over ALL pairs of log entries. A case is non-trivial when at least one create event and one verification happened; distinct = distinct materialised traces (64-bit hash).",
            distinct_classes: &["op-name sequences per builder", "ordered (op, later op) pairs per builder"],
            assumptions: &[
                "both parties are coset: a deviation applied identically to creator and verifier is invisible (C03-C05, not claimed)",
                "crypto closures are stubs returning unique tokens; coset treats signatures, tags and ciphertexts as opaque",
                "protected-header identity is the byte string in the protected slot (sender: what coset emits for the palette header; receiver: what the harness's own CBOR reader finds on the wire); palette headers are pairwise different in content (checked at start-up on harness-side descriptors)",
                "histories respect the helpers' documented preconditions (payload before create_tag, no payload before detached create)",
            ],
            real_components: &["coset builders, create/try_create helpers, encoders, decoders, verify/decrypt helpers (real code)"],
            stub_components: &["signer / MAC / cipher / verifier closures (recording stub, fails on command)", "wire (region-targeted bit flips)", "application deciding what to send and verify", "reference log + tuple oracle", "wire model (what the encoded message must carry)"],
            fault_kinds: &["creator-fails (try_ helpers, followed by retry from a fresh builder)", "verifier-result(Err)", "aad-mismatch", "payload-mismatch (detached)", "flip(protected|unprotected|payload|slot|nested region)", "post-create mutation (history)"],
            design_ref: "DESIGN.md section 5.2",
        }
    }
    fn runs(&self, tier: Tier) -> u64 {
        match tier {
            Tier::Quick => 600_000,
            Tier::Thorough => 20_000_000,
        }
    }
    fn batch(&self) -> u64 {
        1024
    }
    fn gen(&self, seed: u64, run: u64, _tier: Tier) -> Trace {
        let mut rng = Rng::for_run(seed, run, "C06");
        let mut t = Trace::new("C06", seed, run);
        crate::palette::draw_favourite_header(&mut rng);
        let kind = KINDS[rng.below(KINDS.len())];
        t.set_meta("builder", kind);
        // a quarter of the runs obtain their header values by decoding (a relay reusing parsed
        // headers) instead of assembling them in memory
        if rng.chance(1, 4) {
            t.set_meta("headers", "decoded");
        }
        let taggable = kind != "CoseRecipient";
        t.set_meta(
            "encode",
            if taggable && rng.bool() {
                "tagged"
            } else {
                "untagged"
            },
        );
        for s in gen_history(kind, &mut rng) {
            t.push(s);
        }
        let nf = rng.weighted(&[60, 30, 10]);
        for _ in 0..nf {
            let region = ["protected", "unprotected", "payload", "slot", "nested"][rng.below(5)];
            t.push(Step::new(
                "fault",
                "flip",
                vec![
                    Arg::S(region.into()),
                    Arg::I(rng.below(1000) as i128),
                    Arg::I(rng.below(8) as i128),
                ],
            ));
        }
        // the receiver also edits the decoded message the documented way and verifies again
        t.push(Step::new(
            "edit",
            "replace-protected",
            vec![a_hdr(&mut rng)],
        ));
        // verify plan
        t.push(Step::new("verify", "same", vec![Arg::I(1)]));
        if rng.bool() {
            t.push(Step::new(
                "verify",
                "aad",
                vec![a_aad(&mut rng), Arg::I(rng.chance(3, 4) as i128)],
            ));
        }
        if rng.bool() {
            t.push(Step::new(
                "verify",
                "payload",
                vec![a_payload(&mut rng), Arg::I(rng.chance(3, 4) as i128)],
            ));
        }
        if rng.chance(1, 3) {
            t.push(Step::new("verify", "same", vec![Arg::I(0)]));
        }
        crate::palette::clear_favourite_header();
        t
    }
    fn step_is_fixed(&self, _t: &Trace, _idx: usize) -> bool {
        false
    }
    fn shrink(&self, t: &Trace) -> Vec<Trace> {
        let mut out = crate::c19::shrink_args(t);
        // header indices -> 0, flags -> 0
        for (si, s) in t.steps.iter().enumerate() {
            if s.kind == "op" && (s.name == "protected" || s.name == "unprotected") {
                if let Some(Arg::I(i)) = s.args.first() {
                    if *i != 0 {
                        let mut c = t.clone();
                        c.steps[si].args[0] = Arg::I(0);
                        out.push(c);
                    }
                }
            }
        }
        out
    }
    fn exec(&self, t: &Trace, st: &mut RunStats) -> HResult<Option<Violation>> {
        let kind = t.meta_req("builder")?.to_string();
        let tagged = t.meta_req("encode")? == "tagged";
        crate::model::set_headers_via_decode(if t.meta("headers") == Some("decoded") {
            1
        } else {
            0
        });
        let ops: Vec<&Step> = t.steps.iter().filter(|s| s.kind == "op").collect();
        let faults: Vec<&Step> = t.steps.iter().filter(|s| s.kind == "fault").collect();
        let verifies: Vec<&Step> = t.steps.iter().filter(|s| s.kind == "verify").collect();
        st.inc(&format!("histories:{}", kind));
        for o in &ops {
            if o.name == "add_signature_bulk" {
                st.inc("probe:history-with-a-block-of-signers");
                st.max("max:signers-in-one-block", o.usize(0)? as u64);
            }
        }
        // reach measures
        {
            let mut h = Hasher64::new();
            h.str(&kind);
            for o in &ops {
                h.str(&o.name);
            }
            st.distinct(1, h.finish());
            for i in 0..ops.len() {
                for j in (i + 1)..ops.len() {
                    let mut h = Hasher64::new();
                    h.str(&kind).str(&ops[i].name).str(&ops[j].name);
                    st.distinct(2, h.finish());
                }
            }
        }
        // palette headers used in this run must not be conflated by the encoder (I2 <=)
        let mut used: Vec<crate::model::MHeader> = vec![crate::model::MHeader::default()];
        for o in &ops {
            match o.name.as_str() {
                "protected" | "add_signature" | "add_created" | "add_detached"
                | "add_recipient" => {
                    // (templates that carry retained wire bytes are identified by those bytes)
                    if o.name == "protected" || protected_from_arg(o, 0)?.original.is_none() {
                        let h = header_from_arg(o, 0)?;
                        if !used.contains(&h) {
                            used.push(h);
                        }
                    }
                }
                _ => {}
            }
        }
        let mut encs = Vec::new();
        for h in &used {
            match enc_protected(h) {
                Ok(b) => encs.push((h, b)),
                Err(e) => {
                    return Ok(Some(Violation::new(
                        "C06.I5",
                        format!("protected header {:?}: {}", h, e),
                    )))
                }
            }
        }
        // what counts is the content any decoder must see in each descriptor - computed by the
        // harness, not by coset (in "decoded" mode the decoder legitimately folds a small bignum
        // into an integer or moves a typed-field label out of the extras)
        let effective: Vec<crate::model::MHeader> =
            encs.iter().map(|(h, _)| h.normalised()).collect();
        for a in 0..encs.len() {
            for b in (a + 1)..encs.len() {
                if effective[a] == effective[b] {
                    continue;
                }
                if encs[a].1 == encs[b].1 {
                    return Ok(Some(Violation::new(
                        "C06.I2<=",
                        format!("protected headers {:?} and {:?} differ in content but coset emits the same protected bytes {} for both", encs[a].0, encs[b].0, hex_short(&encs[a].1)),
                    )));
                }
            }
        }

        // sender, with retry after an injected creator failure
        let mut failed: Vec<usize> = Vec::new();
        let (built, mut obs, tokens, wire_model) = loop {
            let mut s = Sender::new(failed.clone(), t.run);
            match send(&kind, &ops, &mut s) {
                Ok(b) => {
                    st.add("fault:creator-fails", failed.len() as u64);
                    let body_id = match enc_protected(&s.prot) {
                        Ok(x) => x,
                        Err(e) => return Ok(Some(Violation::new("C06.I5", e))),
                    };
                    break (
                        b,
                        s.obs,
                        s.tokens,
                        (
                            body_id,
                            s.payload.clone(),
                            s.slot.clone(),
                            s.signers.clone(),
                            s.rcpts.clone(),
                        ),
                    );
                }
                Err(SendErr::Retry(idx)) => {
                    // I2 also holds for the bytes handed to the failing creator: keep checking them
                    if let Some(v) = check_pairs(&s.obs) {
                        return Ok(Some(v));
                    }
                    failed.push(idx);
                    if failed.len() > 32 {
                        return herr("retry loop does not terminate");
                    }
                }
                Err(SendErr::Violation(v)) => return Ok(Some(v)),
                Err(SendErr::Harness(e)) => return Err(e),
            }
        };
        let n_create = obs.len();
        st.add("create_events", n_create as u64);
        let post_create_mutation = {
            let first_create = ops.iter().position(|o| {
                matches!(
                    o.name.as_str(),
                    "create" | "create_detached" | "add_created" | "add_detached"
                )
            });
            match first_create {
                Some(i) => ops[i + 1..].iter().any(|o| {
                    matches!(
                        o.name.as_str(),
                        "protected" | "payload" | "signature" | "tag" | "ciphertext"
                    )
                }),
                None => false,
            }
        };
        if post_create_mutation {
            st.inc("probe:post-create-mutation");
        }
        let _ = tokens;

        // encode
        let wire = match guarded(|| match &built {
            Built::Sign1(m) => {
                if tagged {
                    m.clone().to_tagged_vec()
                } else {
                    m.clone().to_vec()
                }
            }
            Built::Sign(m) => {
                if tagged {
                    m.clone().to_tagged_vec()
                } else {
                    m.clone().to_vec()
                }
            }
            Built::Mac(m) => {
                if tagged {
                    m.clone().to_tagged_vec()
                } else {
                    m.clone().to_vec()
                }
            }
            Built::Mac0(m) => {
                if tagged {
                    m.clone().to_tagged_vec()
                } else {
                    m.clone().to_vec()
                }
            }
            Built::Encrypt(m) => {
                if tagged {
                    m.clone().to_tagged_vec()
                } else {
                    m.clone().to_vec()
                }
            }
            Built::Encrypt0(m) => {
                if tagged {
                    m.clone().to_tagged_vec()
                } else {
                    m.clone().to_vec()
                }
            }
            Built::Recipient(m) => m.clone().to_vec(),
        }) {
            Ok(Ok(w)) => w,
            Ok(Err(e)) => {
                return Ok(Some(Violation::new(
                    "C06.I5",
                    format!("the built message does not encode: {:?}", e),
                )))
            }
            Err(p) => {
                return Ok(Some(Violation::new(
                    "C06.I5",
                    format!("encoding the built message panicked: {}", p),
                )))
            }
        };
        st.max("max:wire_len", wire.len() as u64);
        // I6: the encoded message carries exactly what the builder was given - protected bytes,
        // payload, signature / tag / ciphertext, every signer's and recipient's protected bytes -
        // as read from the wire by the harness's own CBOR reader
        {
            let (body_id, payload, slot, signers, rcpts) = &wire_model;
            let w = match wire_view(&kind, &wire, tagged) {
                Some(w) => w,
                None => {
                    return Ok(Some(Violation::new(
                        "C06.I6",
                        format!(
                            "the encoded message is not the structure the builder describes: {}",
                            hex_short(&wire)
                        ),
                    )))
                }
            };
            let slot_default = match kind.as_str() {
                "CoseSign1" | "CoseMac" | "CoseMac0" => Some(Vec::new()),
                _ => None,
            };
            let want_slot = if kind == "CoseSign" {
                None
            } else {
                slot.clone().or(slot_default)
            };
            let mut bad: Option<String> = None;
            if w.prot != *body_id {
                bad = Some(format!("protected bytes on the wire {} but the builder's protected header encodes as {}", hex_short(&w.prot), hex_short(body_id)));
            } else if matches!(
                kind.as_str(),
                "CoseSign1" | "CoseSign" | "CoseMac" | "CoseMac0"
            ) && w.payload != *payload
            {
                bad = Some(format!(
                    "payload on the wire {:?} but the builder was given {:?}",
                    w.payload.as_ref().map(|p| hex_short(p)),
                    payload.as_ref().map(|p| hex_short(p))
                ));
            } else if w.slot != want_slot {
                bad = Some(format!(
                    "signature/tag/ciphertext on the wire {:?} but the builder holds {:?}",
                    w.slot.as_ref().map(|p| hex_short(p)),
                    want_slot.as_ref().map(|p| hex_short(p))
                ));
            } else if kind == "CoseSign" {
                if w.nested.len() != signers.len() {
                    bad = Some(format!(
                        "{} signatures on the wire, {} were added",
                        w.nested.len(),
                        signers.len()
                    ));
                } else {
                    for (i, (sw, (id, sg))) in w.nested.iter().zip(signers.iter()).enumerate() {
                        if sw.prot != *id {
                            bad = Some(format!("signer {}: protected bytes on the wire {} but the template's are {}", i, hex_short(&sw.prot), hex_short(id)));
                            break;
                        }
                        if sw.slot.as_deref() != Some(sg.as_slice()) {
                            bad = Some(format!(
                                "signer {}: signature on the wire {:?} but {} was stored",
                                i,
                                sw.slot.as_ref().map(|p| hex_short(p)),
                                hex_short(sg)
                            ));
                            break;
                        }
                    }
                }
            } else if matches!(kind.as_str(), "CoseMac" | "CoseEncrypt" | "CoseRecipient") {
                if w.nested.len() != rcpts.len() {
                    bad = Some(format!(
                        "{} recipients on the wire, {} were added",
                        w.nested.len(),
                        rcpts.len()
                    ));
                } else {
                    for (i, (rw, (id, ct))) in w.nested.iter().zip(rcpts.iter()).enumerate() {
                        if rw.prot != *id || rw.slot != *ct {
                            bad = Some(format!("recipient {}: wire carries protected {} / ciphertext {:?}, builder was given {} / {:?}", i, hex_short(&rw.prot), rw.slot.as_ref().map(|p| hex_short(p)), hex_short(id), ct.as_ref().map(|p| hex_short(p))));
                            break;
                        }
                    }
                }
            }
            if let Some(b) = bad {
                return Ok(Some(Violation::new("C06.I6", b)));
            }
        }

        // wire faults
        let mut delivered = wire.clone();
        let mut fired = 0;
        if !faults.is_empty() {
            if let Some(regs) = regions(&wire, &kind) {
                for f in &faults {
                    let rn = f.sym(0)?;
                    let pm = f.usize(1)?;
                    let bit = f.usize(2)? % 8;
                    if let Some((_, s, e)) = regs.iter().find(|(n, _, _)| *n == rn) {
                        if e > s {
                            let off = s + (pm * (e - s) / 1000).min(e - s - 1);
                            delivered[off] ^= 1 << bit;
                            fired += 1;
                            st.inc(&format!("fault:flip({})", rn));
                        }
                    }
                }
            }
        }
        if fired == 0 {
            st.inc("runs:fault-free-wire");
        } else {
            st.inc("runs:tampered-wire");
        }

        // verify plan
        let creation_aad = ops
            .iter()
            .rev()
            .find_map(|o| match o.name.as_str() {
                "create" | "create_detached" => o.bytes(0).ok().map(|b| b.to_vec()),
                "add_created" | "add_detached" => o.bytes(3).ok().map(|b| b.to_vec()),
                _ => None,
            })
            .unwrap_or_default();
        let creation_detached = ops
            .iter()
            .rev()
            .find_map(|o| match o.name.as_str() {
                "create_detached" => o.bytes(3).ok().map(|b| b.to_vec()),
                "add_detached" => o.bytes(6).ok().map(|b| b.to_vec()),
                _ => None,
            })
            .unwrap_or_default();
        let mut plans = Vec::new();
        for v in &verifies {
            match v.name.as_str() {
                "same" => plans.push(Plan {
                    aad: creation_aad.clone(),
                    detached: creation_detached.clone(),
                    result_ok: v.int(0)? == 1,
                    label: "creation aad/payload".into(),
                }),
                "aad" => {
                    st.inc("fault:aad-mismatch");
                    plans.push(Plan {
                        aad: v.bytes(0)?.to_vec(),
                        detached: creation_detached.clone(),
                        result_ok: v.int(1)? == 1,
                        label: "perturbed aad".into(),
                    })
                }
                "payload" => {
                    st.inc("fault:payload-mismatch");
                    plans.push(Plan {
                        aad: creation_aad.clone(),
                        detached: v.bytes(0)?.to_vec(),
                        result_ok: v.int(1)? == 1,
                        label: "perturbed detached payload".into(),
                    })
                }
                x => return herr(format!("unknown verify step {}", x)),
            }
        }
        for p in &plans {
            if !p.result_ok {
                st.inc("fault:verifier-result(Err)");
            }
        }
        let replacement = match t.steps.iter().find(|s| s.kind == "edit") {
            Some(e) => Some(header_from_arg(e, 0)?),
            None => None,
        };
        let decoded = match receive(
            &kind,
            &delivered,
            tagged,
            &plans,
            replacement.as_ref(),
            &mut obs,
            st,
        ) {
            Ok(d) => d,
            Err(v) => return Ok(Some(v)),
        };
        if !decoded {
            if fired == 0 {
                return Ok(Some(Violation::new("C06.I5", format!("the untampered encoding of the built message was not accepted by the matching decoder: {}", hex_short(&wire)))));
            }
            st.inc("probe:lost(tampered message undecodable)");
            return Ok(None);
        }
        if fired > 0 {
            st.inc("probe:tampered-but-accepted");
        }
        if n_create >= 1 && obs.len() > n_create {
            st.distinct(0, t.hash());
        }
        Ok(check_pairs(&obs))
    }
    fn finding_key(&self, t: &Trace, invariant: &str) -> String {
        let ops: Vec<&str> = t
            .steps
            .iter()
            .filter(|s| s.kind == "op")
            .map(|s| s.name.as_str())
            .collect();
        format!(
            "{}:{}:{}",
            t.meta("builder").unwrap_or("?"),
            invariant,
            ops.join(",")
        )
    }
}

/// I2 over all pairs of log entries: the bytes handed to the caller's function are equal iff the
/// covered tuples are equal.
fn check_pairs(obs: &[Obs]) -> Option<Violation> {
    for i in 0..obs.len() {
        for j in (i + 1)..obs.len() {
            let te = obs[i].tuple == obs[j].tuple;
            let be = obs[i].bytes == obs[j].bytes;
            if te && !be {
                return Some(Violation::new(
                    "C06.I2=>",
                    format!(
                        "same covered tuple but different bytes: {} got {} / {} got {} (tuple ctx={} aad={} payload={:?})",
                        obs[i].what,
                        hex_short(&obs[i].bytes),
                        obs[j].what,
                        hex_short(&obs[j].bytes),
                        obs[i].tuple.ctx,
                        hex_short(&obs[i].tuple.aad),
                        obs[i].tuple.payload.as_ref().map(|p| hex_short(p))
                    ),
                ));
            }
            if !te && be {
                return Some(Violation::new(
                    "C06.I2<=",
                    format!(
                        "different covered tuples but identical bytes {}: {} {} vs {} {}",
                        hex_short(&obs[i].bytes),
                        obs[i].what,
                        tuple_str(&obs[i].tuple),
                        obs[j].what,
                        tuple_str(&obs[j].tuple)
                    ),
                ));
            }
        }
    }
    None
}

fn tuple_str(t: &Tuple) -> String {
    format!(
        "(ctx={} body={} sign={:?} aad={} payload={:?})",
        t.ctx,
        hex_short(&t.body),
        t.sign.as_ref().map(|p| hex_short(p)),
        hex_short(&t.aad),
        t.payload.as_ref().map(|p| hex_short(p))
    )
}
