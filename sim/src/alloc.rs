//! Counting global allocator with per-thread counters and an optional hard cap.
//! The counters are `const`-initialised thread-locals without destructors, which is safe to
//! touch from inside the allocator.

use std::alloc::{GlobalAlloc, Layout, System};
use std::cell::Cell;

pub struct Counting;

thread_local! {
    static LIVE: Cell<usize> = const { Cell::new(0) };
    static PEAK: Cell<usize> = const { Cell::new(0) };
    static TOTAL: Cell<usize> = const { Cell::new(0) };
    static CALLS: Cell<usize> = const { Cell::new(0) };
    /// hard cap on live bytes for this thread (0 = none): allocation beyond it is refused,
    /// which aborts the process (seen by the supervisor as a dead node)
    static HARD_CAP: Cell<usize> = const { Cell::new(0) };
}

unsafe impl GlobalAlloc for Counting {
    unsafe fn alloc(&self, layout: Layout) -> *mut u8 {
        let sz = layout.size();
        let live = LIVE.with(|c| {
            let v = c.get().wrapping_add(sz);
            c.set(v);
            v
        });
        let cap = HARD_CAP.with(|c| c.get());
        if cap != 0 && live > cap {
            LIVE.with(|c| c.set(c.get().wrapping_sub(sz)));
            let msg = b"cosim-alloc: hard cap on live bytes exceeded, refusing allocation\n";
            let _ = write_stderr(msg);
            return std::ptr::null_mut();
        }
        PEAK.with(|c| {
            if live > c.get() {
                c.set(live)
            }
        });
        TOTAL.with(|c| c.set(c.get().wrapping_add(sz)));
        CALLS.with(|c| c.set(c.get().wrapping_add(1)));
        System.alloc(layout)
    }
    unsafe fn dealloc(&self, ptr: *mut u8, layout: Layout) {
        LIVE.with(|c| c.set(c.get().wrapping_sub(layout.size())));
        System.dealloc(ptr, layout)
    }
    unsafe fn realloc(&self, ptr: *mut u8, layout: Layout, new_size: usize) -> *mut u8 {
        let old = layout.size();
        if new_size > old {
            let d = new_size - old;
            let live = LIVE.with(|c| {
                let v = c.get().wrapping_add(d);
                c.set(v);
                v
            });
            let cap = HARD_CAP.with(|c| c.get());
            if cap != 0 && live > cap {
                LIVE.with(|c| c.set(c.get().wrapping_sub(d)));
                let _ = write_stderr(
                    b"cosim-alloc: hard cap on live bytes exceeded, refusing reallocation\n",
                );
                return std::ptr::null_mut();
            }
            PEAK.with(|c| {
                if live > c.get() {
                    c.set(live)
                }
            });
            // a growing realloc may copy: count the whole new block as allocated work
            TOTAL.with(|c| c.set(c.get().wrapping_add(new_size)));
        } else {
            LIVE.with(|c| c.set(c.get().wrapping_sub(old - new_size)));
        }
        CALLS.with(|c| c.set(c.get().wrapping_add(1)));
        System.realloc(ptr, layout, new_size)
    }
}

fn write_stderr(msg: &[u8]) -> isize {
    extern "C" {
        fn write(fd: i32, buf: *const u8, count: usize) -> isize;
    }
    unsafe { write(2, msg.as_ptr(), msg.len()) }
}

#[derive(Clone, Copy, Debug, Default)]
pub struct Snapshot {
    pub live: usize,
    pub total: usize,
    pub calls: usize,
}

/// Start measuring an operation on this thread: returns the baseline and resets the peak.
pub fn begin() -> Snapshot {
    let live = LIVE.with(|c| c.get());
    PEAK.with(|c| c.set(live));
    Snapshot {
        live,
        total: TOTAL.with(|c| c.get()),
        calls: CALLS.with(|c| c.get()),
    }
}

#[derive(Clone, Copy, Debug, Default)]
pub struct Usage {
    /// peak live bytes above the baseline during the operation
    pub peak_live: usize,
    /// cumulative bytes allocated during the operation
    pub total: usize,
    pub calls: usize,
}

pub fn end(base: Snapshot) -> Usage {
    Usage {
        peak_live: PEAK.with(|c| c.get()).saturating_sub(base.live),
        total: TOTAL.with(|c| c.get()).wrapping_sub(base.total),
        calls: CALLS.with(|c| c.get()).wrapping_sub(base.calls),
    }
}

pub fn set_hard_cap(bytes: usize) {
    let live = LIVE.with(|c| c.get());
    HARD_CAP.with(|c| c.set(if bytes == 0 { 0 } else { live + bytes }));
}
